//! C19 — The test runner and CLI report outcomes truthfully.

use std::fmt::Write as _;
use std::path::PathBuf;
use std::process::Command;

use roto::{FileTree, NoCtx, Runtime};

use crate::core::*;
use crate::host;
use crate::model::{Ev, V};

pub struct C19P;
pub static C19: C19P = C19P;

// (`test_a` / `test_t`: what a test block `a` / `t` could be called internally)
const NAMES: [&str; 8] = ["a", "b", "c", "main", "check_it", "t", "test_a", "test_t"];

#[derive(Clone, Debug)]
struct TestSpec {
    module: usize,
    name: String,
    tag: i32,
    /// early exits: (condition value, accept?) evaluated in order; first true condition decides
    exits: Vec<(bool, bool, u8)>,
    final_accept: bool,
    calls_same_named_fn: bool,
    /// the body builds an f-string with an interpolation
    fstring: bool,
}

#[derive(Clone, Debug)]
struct Script {
    /// the first child module is itself called `pkg` (library route only)
    pkg_child: bool,
    n_modules: usize,
    tests: Vec<TestSpec>,
    /// functions: (module, name, value)
    fns: Vec<(usize, String, i32)>,
    /// per function: shaped like a test (no parameters, returns a rejecting `Verdict[(), ()]`), never called
    fn_shaped_like_test: Vec<bool>,
    /// the test blocks of a module stand before its functions
    tests_first: bool,
}

fn decode(ctl: &[u8]) -> Script {
    let mut c = Choices::new(ctl);
    let n_modules = 1 + c.below(4);
    let n_tests = c.below(9);
    let mut tests: Vec<TestSpec> = Vec::new();
    let mut fns: Vec<(usize, String, i32)> = Vec::new();
    for m in 0..n_modules {
        for n in NAMES {
            if c.chance(70) {
                fns.push((m, n.to_string(), 1000 + fns.len() as i32));
            }
        }
    }
    for i in 0..n_tests {
        let module = c.below(n_modules);
        let name = NAMES[c.below(NAMES.len())].to_string();
        if tests.iter().any(|t| t.module == module && t.name == name) {
            continue;
        }
        let n_exits = c.below(3);
        let exits = (0..n_exits).map(|_| (c.chance(90), c.chance(128), c.below(3) as u8)).collect();
        let has_fn = fns.iter().any(|(m, n, _)| *m == module && *n == name);
        tests.push(TestSpec { module, name, tag: i as i32 + 1, exits, final_accept: c.chance(170), calls_same_named_fn: has_fn && c.chance(128), fstring: false });
    }
    let pkg_child = c.chance(70);
    let fn_shaped_like_test: Vec<bool> = fns.iter().map(|(_, n, _)| n != "main" && c.chance(50)).collect();
    for t in tests.iter_mut() {
        t.fstring = c.chance(90);
        if t.calls_same_named_fn {
            // the same-named function is called for its i32 value
            let k = fns.iter().position(|(m, n, _)| *m == t.module && *n == t.name).unwrap();
            if fn_shaped_like_test[k] {
                t.calls_same_named_fn = false;
            }
        }
    }
    let tests_first = c.chance(100);
    Script { pkg_child, n_modules, tests, fns, fn_shaped_like_test, tests_first }
}

fn cond_text(v: bool, style: u8) -> &'static str {
    match (v, style) {
        (true, 0) => "true",
        (true, 1) => "1 + 1 == 2",
        (true, _) => "!(3 < 2)",
        (false, 0) => "false",
        (false, 1) => "2 * 2 == 5",
        (false, _) => "\"a\" == \"b\"",
    }
}

fn outcome(t: &TestSpec) -> bool {
    for (v, acc, _) in &t.exits {
        if *v {
            return *acc;
        }
    }
    t.final_accept
}

fn render(s: &Script, m: usize, cli: bool) -> String {
    let mut fns_text = String::new();
    for (k, (fm, n, v)) in s.fns.iter().enumerate() {
        if *fm == m {
            if n == "main" {
                // keep `main` a plain fn() so that the CLI's `run` has an entry point
                let _ = writeln!(fns_text, "fn main() {{\n    print(\"ran-main-{v}\");\n}}");
            } else if s.fn_shaped_like_test[k] {
                let _ = writeln!(fns_text, "fn {n}() -> Verdict[(), ()] {{\n    reject\n}}");
            } else {
                let _ = writeln!(fns_text, "fn {n}() -> i32 {{ {v} }}");
            }
        }
    }
    // two in three scripts: functions that call each other in a cycle (of two or three), used by the
    // tests of their module; they never change an outcome
    let cyc = (s.tests.len() + s.fns.len()) % 3;
    if cyc != 0 && s.tests.iter().any(|t| t.module == m) {
        if cyc == 1 {
            let _ = writeln!(fns_text, "fn zz_even{m}(n: i32) -> bool {{ if n == 0 {{ true }} else {{ zz_odd{m}(n - 1) }} }}\nfn zz_odd{m}(n: i32) -> bool {{ if n == 0 {{ false }} else {{ zz_even{m}(n - 1) }} }}");
        } else {
            let _ = writeln!(fns_text, "fn zz_odd{m}(n: i32) -> bool {{ if n == 0 {{ false }} else {{ zz_mid{m}(n) }} }}\nfn zz_mid{m}(n: i32) -> bool {{ zz_even{m}(n - 1) }}\nfn zz_even{m}(n: i32) -> bool {{ if n == 0 {{ true }} else {{ zz_odd{m}(n - 1) }} }}");
        }
    }
    let mut o = String::new();
    if !s.tests_first {
        o.push_str(&fns_text);
    }
    for t in &s.tests {
        if t.module != m {
            continue;
        }
        let _ = writeln!(o, "test {} {{", t.name);
        if cyc != 0 {
            if t.tag % 2 == 0 {
                let _ = writeln!(o, "    if !zz_even{m}(4) {{\n        reject\n    }}");
            } else {
                let _ = writeln!(o, "    if zz_odd{m}(4) {{\n        reject\n    }}");
            }
        }
        if cli {
            // the command-line binary's runtime has `print` but not the harness's effect markers
            let _ = writeln!(o, "    print(\"test-body-{}\");", t.tag);
        } else {
            let _ = writeln!(o, "    e({});", t.tag);
        }
        if t.calls_same_named_fn && t.name != "main" {
            let _ = writeln!(o, "    let same = {}();", t.name);
        }
        if t.fstring {
            let _ = writeln!(o, "    let fs{0} = f\"tag {{1 + {0}}} of {{true}}\";\n    if fs{0} == \"\" {{\n        reject\n    }}", t.tag);
        }
        for (i, (v, acc, style)) in t.exits.iter().enumerate() {
            let verdict = if *acc { "accept" } else { "reject" };
            if i % 2 == 0 {
                let _ = writeln!(o, "    if {} {{\n        {verdict}\n    }}", cond_text(*v, *style));
            } else {
                let _ = writeln!(o, "    let w{i} = 0;\n    while w{i} < 2 {{\n        if {} {{\n            {verdict};\n        }}\n        w{i} = w{i} + 1;\n    }}", cond_text(*v, *style));
            }
        }
        let _ = writeln!(o, "    {}\n}}", if t.final_accept { "accept" } else { "reject" });
    }
    if s.tests_first {
        o.push_str(&fns_text);
    }
    o
}

fn files(s: &Script) -> Vec<(String, String)> {
    files_for(s, false)
}

fn files_for(s: &Script, cli: bool) -> Vec<(String, String)> {
    (0..s.n_modules).map(|m| (mname(s, m, cli), render(s, m, cli))).collect()
}

fn mname(s: &Script, m: usize, cli: bool) -> String {
    if m == 0 || (m == 1 && s.pkg_child && !cli) { "pkg".to_string() } else { format!("m{m}") }
}

struct W {
    rt: Runtime<NoCtx>,
    tmp: PathBuf,
    cli: PathBuf,
}

fn tags_of(log: &[Ev]) -> Vec<i32> {
    log.iter()
        .filter_map(|e| match e {
            Ev::Eff(n, a) if n == "e" => match a.first() {
                Some(V::Int(_, k)) => Some(*k as i32),
                _ => None,
            },
            _ => None,
        })
        .collect()
}

impl W {
    fn library(&mut self, s: &Script, text: &str) -> Result<Outcome, (String, String)> {
        let fs = files(s);
        let mut names_runs: Vec<Vec<String>> = Vec::new();
        let mut o = Outcome::pass();
        for round in 0..2 {
            let mut pkg = crate::props::c06::build_tree(&fs).compile(&self.rt).map_err(|e| ("rejected".to_string(), host::render_report(&e)))?;
            // order reported by get_tests
            let listed: Vec<String> = pkg.get_tests().map(|t| t.name().to_string()).collect();
            host::reset(vec![]);
            let res = pkg.run_tests();
            let tags = tags_of(&host::take_log());
            let expect_ok = s.tests.iter().all(outcome);
            if res.is_ok() != expect_ok {
                return Err(("wrong-aggregate-result".into(), format!("run_tests() returned {:?} but {} of {} test blocks end in reject", res, s.tests.iter().filter(|t| !outcome(t)).count(), s.tests.len())));
            }
            let mut sorted = tags.clone();
            sorted.sort();
            let mut want: Vec<i32> = s.tests.iter().map(|t| t.tag).collect();
            want.sort();
            if sorted != want {
                return Err(("not-exactly-once".into(), format!("test bodies that ran (by tag): {tags:?}, declared tests: {want:?}")));
            }
            if listed.len() != s.tests.len() {
                return Err(("get_tests-count".into(), format!("get_tests() lists {listed:?} for {} declared tests", s.tests.len())));
            }
            // individual results through get_tests, in the listed order, must match the model and the run order
            host::reset(vec![]);
            let cases: Vec<_> = pkg.get_tests().collect();
            let mut order_tags = Vec::new();
            for tc in &cases {
                let r = tc.run(&mut NoCtx);
                let t = tags_of(&host::take_log());
                if t.len() != 1 {
                    return Err(("test-ran-not-once".into(), format!("running test `{}` executed bodies {t:?}", tc.name())));
                }
                let spec = s.tests.iter().find(|x| x.tag == t[0]).unwrap();
                if r.is_ok() != outcome(spec) {
                    return Err(("wrong-test-result".into(), format!("test `{}` reported {:?}, its body ends in {}", tc.name(), r, if outcome(spec) { "accept" } else { "reject" })));
                }
                if !tc.name().ends_with(&spec.name) {
                    return Err(("wrong-test-name".into(), format!("test listed as `{}` ran the body of `{}`", tc.name(), spec.name)));
                }
                order_tags.push(t[0]);
            }
            if order_tags != tags {
                return Err(("order-differs".into(), format!("run_tests order (by tag) {tags:?} differs from get_tests order {order_tags:?}")));
            }
            names_runs.push(listed);
            let _ = round;
        }
        if names_runs[0] != names_runs[1] {
            return Err(("order-not-deterministic".into(), format!("two compilations list the tests as {:?} and {:?}", names_runs[0], names_runs[1])));
        }
        // a test cannot be called like a function
        if let Some(t) = s.tests.iter().find(|t| !s.fns.iter().any(|(m, n, _)| *m == t.module && *n == t.name)) {
            let mut fs2 = fs.clone();
            let _ = writeln!(fs2[t.module].1, "fn calls_a_test() {{\n    {}();\n}}", t.name);
            if crate::props::c06::build_tree(&fs2).compile(&self.rt).is_ok() {
                return Err(("test-callable".into(), format!("a script function calling the test `{}` compiled", t.name)));
            }
            o.classes.push("probe:call-test-as-function".into());
        }
        // functions sharing a name with a test keep working
        {
            let mut pkg = crate::props::c06::build_tree(&fs).compile(&self.rt).map_err(|e| ("rejected".to_string(), host::render_report(&e)))?;
            for (k, (m, n, v)) in s.fns.iter().enumerate() {
                if n == "main" {
                    continue;
                }
                let path = if *m == 0 { n.clone() } else { format!("{}.{n}", mname(s, *m, false)) };
                if s.fn_shaped_like_test[k] {
                    // a function that merely looks like a test: never run as one, still callable from Rust
                    let f = pkg.get_function::<fn() -> roto::Verdict<(), ()>>(&path).map_err(|e| ("get_function".to_string(), format!("{path}: {e}")))?;
                    if !matches!(f.call(), roto::Verdict::Reject(())) {
                        return Err(("function-shadowed-by-test".into(), format!("{path}() does not return its own value")));
                    }
                    continue;
                }
                let f = pkg.get_function::<fn() -> i32>(&path).map_err(|e| ("get_function".to_string(), format!("{path}: {e}")))?;
                if f.call() != *v {
                    return Err(("function-shadowed-by-test".into(), format!("{path}() does not return its own value")));
                }
            }
        }
        let collisions = s.tests.iter().any(|t| s.fns.iter().any(|(m, n, _)| *m == t.module && *n == t.name));
        let mixed = s.tests.iter().any(outcome) && s.tests.iter().any(|t| !outcome(t));
        let mods: std::collections::BTreeSet<usize> = s.tests.iter().map(|t| t.module).collect();
        o.nontrivial = (s.tests.len() >= 2 && mods.len() >= 2 && mixed) || collisions;
        if collisions {
            o.classes.push("name-collision-fn-and-test".into());
        }
        if mixed {
            o.classes.push("mixed-outcomes".into());
        }
        o.classes.push("sub:library".into());
        o.hash = fnv(text.as_bytes());
        Ok(o)
    }

    fn cli(&mut self, s: &Script, c: &mut Choices, text: &str) -> Result<Outcome, (String, String)> {
        if !self.cli.exists() {
            return Ok(Outcome::discard("roto CLI binary not built"));
        }
        let _ = std::fs::remove_dir_all(&self.tmp);
        std::fs::create_dir_all(&self.tmp).map_err(|e| ("io".to_string(), e.to_string()))?;
        let variant = c.below(6);
        let fs = files_for(s, true);
        // single-file script (the CLI takes a file or a directory)
        let mut main_text = fs[0].1.clone();
        let mut expect_compile = true;
        match variant {
            0 => {
                main_text.push_str("fn broken() -> i32 { \"not an int\" }\n");
                expect_compile = false;
            }
            1 => {
                main_text.push_str("fn broken( {\n");
                expect_compile = false;
            }
            _ => {}
        }
        let has_main = s.fns.iter().any(|(m, n, _)| *m == 0 && n == "main");
        let entry_variant = c.below(4);
        if !has_main && entry_variant == 1 {
            main_text.push_str("fn main(x: i32) {\n    print(\"ran-main-arg\");\n}\n");
        } else if !has_main && entry_variant == 2 {
            main_text.push_str("fn main() -> i32 {\n    print(\"ran-main-ret\");\n    1\n}\n");
        }
        main_text.push_str("fn other_entry() {\n    print(\"ran-other\");\n}\n");
        let dir = self.tmp.join("script");
        std::fs::create_dir_all(&dir).map_err(|e| ("io".to_string(), e.to_string()))?;
        std::fs::write(dir.join("pkg.roto"), &main_text).map_err(|e| ("io".to_string(), e.to_string()))?;
        let linked = self.tmp.join("linked");
        let _ = std::fs::remove_dir_all(&linked);
        for (i, (n, t)) in fs.iter().enumerate().skip(1) {
            let io = |e: std::io::Error| ("io".to_string(), e.to_string());
            // a module is `n.roto`, `n/mod.roto`, or one of the two reached through a symbolic link
            match (main_text.len() + i) % 5 {
                2 => {
                    std::fs::create_dir_all(dir.join(n)).map_err(io)?;
                    std::fs::write(dir.join(n).join("mod.roto"), t).map_err(io)?;
                }
                3 => {
                    std::fs::create_dir_all(linked.join(n)).map_err(io)?;
                    std::fs::write(linked.join(n).join("mod.roto"), t).map_err(io)?;
                    std::os::unix::fs::symlink(linked.join(n), dir.join(n)).map_err(io)?;
                }
                4 => {
                    std::fs::create_dir_all(&linked).map_err(io)?;
                    std::fs::write(linked.join(format!("{n}.txt")), t).map_err(io)?;
                    std::os::unix::fs::symlink(linked.join(format!("{n}.txt")), dir.join(format!("{n}.roto"))).map_err(io)?;
                }
                _ => std::fs::write(dir.join(format!("{n}.roto")), t).map_err(io)?,
            }
        }
        if c.chance(150) {
            // directories without a mod.roto are not modules: what they hold does not belong to the script,
            // and the module files next to them still do
            for n in [".git", "assets", "0docs", "zz_data", "Target", "m_notes", "b.d", "__cache__"] {
                let sd = dir.join(n);
                std::fs::create_dir_all(&sd).map_err(|e| ("io".to_string(), e.to_string()))?;
                std::fs::write(sd.join("broken.roto"), "fn broken( {\n").map_err(|e| ("io".to_string(), e.to_string()))?;
                std::fs::write(sd.join("t.roto"), "test zz_never_runs { reject }\n").map_err(|e| ("io".to_string(), e.to_string()))?;
            }
        }
        let run = |args: &[&str]| -> Result<(bool, String), (String, String)> {
            let out = Command::new(&self.cli).args(args).output().map_err(|e| ("io".to_string(), e.to_string()))?;
            Ok((out.status.success(), String::from_utf8_lossy(&out.stdout).to_string()))
        };
        let d = dir.to_string_lossy().to_string();
        let mut evals = 0;
        // check
        let (ok, _) = run(&["check", &d])?;
        evals += 1;
        if ok != expect_compile {
            return Err(("cli-check-status".into(), format!("`roto check` exit success = {ok}, script compiles = {expect_compile}\n{main_text}")));
        }
        // test
        let all_accept = s.tests.iter().all(outcome);
        let (ok, test_out) = run(&["test", &d])?;
        evals += 1;
        if expect_compile {
            for t in &s.tests {
                let n = test_out.lines().filter(|l| l.contains(&format!("test-body-{}", t.tag)) && l.trim_end().ends_with(&format!("test-body-{}", t.tag))).count();
                if n != 1 {
                    return Err(("cli-test-not-once".into(), format!("`roto test` ran the body of test `{}` {n} times\n{test_out}", t.name)));
                }
            }
        }
        if ok != (expect_compile && all_accept) {
            return Err(("cli-test-status".into(), format!("`roto test` exit success = {ok}; compiles = {expect_compile}, every test accepts = {all_accept}\n{main_text}")));
        }
        // run (default entry `main`)
        let main_is_plain = has_main || (!has_main && entry_variant == 0 && false);
        let (ok, out) = run(&["run", &d])?;
        evals += 1;
        let expect_run = expect_compile && main_is_plain;
        if ok != expect_run {
            return Err(("cli-run-status".into(), format!("`roto run` exit success = {ok}; compiles = {expect_compile}, `fn main()` present with no parameters and no result = {main_is_plain} (entry variant {entry_variant})\n{main_text}")));
        }
        if expect_run && out.matches("ran-main-").count() != 1 {
            return Err(("cli-run-count".into(), format!("`roto run` printed the entry function's line {} times\n{out}", out.matches("ran-main-").count())));
        }
        // run a named entry function, and a missing one
        let (ok, out) = run(&["run", &d, "other_entry"])?;
        evals += 1;
        if ok != expect_compile || (expect_compile && out.matches("ran-other").count() != 1) {
            return Err(("cli-run-named".into(), format!("`roto run <dir> other_entry`: exit success = {ok}, output {out:?}")));
        }
        let (ok, _) = run(&["run", &d, "does_not_exist"])?;
        evals += 1;
        if ok {
            return Err(("cli-run-missing-entry".into(), "`roto run <dir> does_not_exist` exited successfully".into()));
        }
        let mut single_form = None;
        if fs.len() == 1 {
            // the same script as a single file, under several file names and path spellings
            let fname = ["script.roto", "mod.roto", "pkg.roto", "main.roto"][c.below(4)];
            let form = c.below(4);
            let sub = self.tmp.join("single").join("sub");
            std::fs::create_dir_all(&sub).map_err(|e| ("io".to_string(), e.to_string()))?;
            std::fs::write(sub.join(fname), &main_text).map_err(|e| ("io".to_string(), e.to_string()))?;
            let (cwd, arg): (std::path::PathBuf, String) = match form {
                0 => (self.tmp.clone(), sub.join(fname).to_string_lossy().to_string()),
                1 => (sub.clone(), fname.to_string()),
                2 => (sub.clone(), format!("./{fname}")),
                _ => (self.tmp.join("single"), format!("sub/{fname}")),
            };
            let run_in = |args: &[&str]| -> Result<(bool, String, String), (String, String)> {
                let out = Command::new(&self.cli).args(args).current_dir(&cwd).output().map_err(|e| ("io".to_string(), e.to_string()))?;
                Ok((out.status.success(), String::from_utf8_lossy(&out.stdout).to_string(), String::from_utf8_lossy(&out.stderr).to_string()))
            };
            let (ok, _, err) = run_in(&["check", &arg])?;
            evals += 1;
            if ok != expect_compile {
                return Err(("cli-check-status:single-file".into(), format!("`roto check {arg}` (file name {fname}) exit success = {ok}, script compiles = {expect_compile}\n{err}\n{main_text}")));
            }
            let (ok, _, err) = run_in(&["test", &arg])?;
            evals += 1;
            if ok != (expect_compile && all_accept) {
                return Err(("cli-test-status:single-file".into(), format!("`roto test {arg}` exit success = {ok}; compiles = {expect_compile}, every test accepts = {all_accept}\n{err}\n{main_text}")));
            }
            let (ok, out, err) = run_in(&["run", &arg])?;
            evals += 1;
            if ok != expect_run || (expect_run && out.matches("ran-main-").count() != 1) {
                return Err(("cli-run-status:single-file".into(), format!("`roto run {arg}` exit success = {ok}, expected {expect_run}; output {out:?}\n{err}\n{main_text}")));
            }
            single_form = Some(format!("{fname}:{form}"));
            // the same script handed over through a pipe (`roto check /dev/stdin`): neither a regular file nor
            // a directory
            let piped = |sub: &str| -> Result<(bool, String, String), (String, String)> {
                use std::io::Write as _;
                let mut child = Command::new(&self.cli)
                    .args([sub, "/dev/stdin"])
                    .stdin(std::process::Stdio::piped())
                    .stdout(std::process::Stdio::piped())
                    .stderr(std::process::Stdio::piped())
                    .spawn()
                    .map_err(|e| ("io".to_string(), e.to_string()))?;
                if let Some(mut si) = child.stdin.take() {
                    let _ = si.write_all(main_text.as_bytes());
                }
                let out = child.wait_with_output().map_err(|e| ("io".to_string(), e.to_string()))?;
                Ok((out.status.success(), String::from_utf8_lossy(&out.stdout).to_string(), String::from_utf8_lossy(&out.stderr).to_string()))
            };
            let (ok, _, err) = piped("check")?;
            evals += 1;
            if ok != expect_compile {
                return Err(("cli-check-status:pipe".into(), format!("`roto check /dev/stdin` (script written to a pipe) exit success = {ok}, script compiles = {expect_compile}\n{err}\n{main_text}")));
            }
            let (ok, _, err) = piped("test")?;
            evals += 1;
            if ok != (expect_compile && all_accept) {
                return Err(("cli-test-status:pipe".into(), format!("`roto test /dev/stdin` exit success = {ok}; compiles = {expect_compile}, every test accepts = {all_accept}\n{err}\n{main_text}")));
            }
            let (ok, out, err) = piped("run")?;
            evals += 1;
            if ok != expect_run || (expect_run && out.matches("ran-main-").count() != 1) {
                return Err(("cli-run-status:pipe".into(), format!("`roto run /dev/stdin` exit success = {ok}, expected {expect_run}; output {out:?}\n{err}\n{main_text}")));
            }
        }
        if expect_compile && c.chance(60) {
            // a module file that exists but cannot be read as text (a Latin-1 byte in a comment): the package does
            // not load, for any sub-command, whether the module is `sub/mod.roto` or `sub.roto`; its rejecting test
            // must not silently drop out
            let io = |e: std::io::Error| ("io".to_string(), e.to_string());
            for as_dir in [true, false] {
                let bd = self.tmp.join(if as_dir { "unreadable-dir" } else { "unreadable-file" });
                std::fs::create_dir_all(bd.join("sub")).map_err(io)?;
                std::fs::write(bd.join("pkg.roto"), "fn main() {\n    print(\"ran-main-unreadable\");\n}\ntest t_ok {\n    accept\n}\n").map_err(io)?;
                let bytes: &[u8] = b"// caf\xe9\ntest sub_rejects {\n    reject\n}\n";
                if as_dir {
                    std::fs::write(bd.join("sub").join("mod.roto"), bytes).map_err(io)?;
                } else {
                    std::fs::write(bd.join("sub.roto"), bytes).map_err(io)?;
                }
                let bds = bd.to_string_lossy().to_string();
                for sub in ["check", "test"] {
                    let out = Command::new(&self.cli).args([sub, &bds]).output().map_err(io)?;
                    evals += 1;
                    let err = String::from_utf8_lossy(&out.stderr).to_string();
                    if out.status.success() || err.contains("panicked at") {
                        return Err((format!("cli-{sub}-status:unreadable-module"), format!("`roto {sub}` on a package whose module {} is not valid UTF-8 (and holds a rejecting test): exit success = {}, stderr:\n{err}", if as_dir { "sub/mod.roto" } else { "sub.roto" }, out.status.success())));
                    }
                }
            }
        }
        if expect_compile && c.chance(60) {
            // a module given twice, as `dup.roto` and as `dup/mod.roto`: a compile error for every sub-command,
            // reported, not a crash
            let dd = self.tmp.join("twice");
            let io = |e: std::io::Error| ("io".to_string(), e.to_string());
            std::fs::create_dir_all(dd.join("dup")).map_err(io)?;
            std::fs::write(dd.join("pkg.roto"), "fn main() {\n    print(\"ran-main-twice\");\n}\ntest t_ok {\n    accept\n}\n").map_err(io)?;
            std::fs::write(dd.join("dup.roto"), "fn one() -> i32 {\n    1\n}\n").map_err(io)?;
            std::fs::write(dd.join("dup").join("mod.roto"), "fn two() -> i32 {\n    2\n}\n").map_err(io)?;
            let dds = dd.to_string_lossy().to_string();
            for sub in ["check", "test", "run"] {
                let out = Command::new(&self.cli).args([sub, &dds]).output().map_err(io)?;
                evals += 1;
                let err = String::from_utf8_lossy(&out.stderr).to_string();
                if out.status.success() || err.contains("panicked at") {
                    return Err((format!("cli-{sub}-status:module-given-twice"), format!("`roto {sub}` on a package with dup.roto and dup/mod.roto: exit success = {}, stderr:\n{err}", out.status.success())));
                }
            }
        }
        let mut o = Outcome::pass();
        o.evals = evals;
        o.nontrivial = true;
        if let Some(f) = single_form {
            o.classes.push(format!("cli-single-file:{f}"));
        }
        o.classes.push("sub:cli".into());
        o.classes.push(format!("cli-variant:{variant}"));
        o.hash = fnv(format!("{text}{variant}{entry_variant}").as_bytes());
        Ok(o)
    }
}

impl WorkerState for W {
    fn render_only(&mut self, case: &Case) -> String {
        let empty: Vec<u8> = Vec::new();
        let s = decode(case.first().unwrap_or(&empty));
        files(&s).iter().map(|(n, t)| format!("=== {n}.roto ===\n{t}")).collect()
    }

    fn run(&mut self, case: &Case, render: bool) -> Outcome {
        let empty: Vec<u8> = Vec::new();
        if case.first().map(|c| c.as_slice()) == Some(b"#!cli-single") {
            // literal: ["#!cli-single", file name, "bare" | "dot" | "sub" | "abs", script text, "1" if it compiles]
            let g = |i: usize| String::from_utf8_lossy(case.get(i).unwrap_or(&empty)).to_string();
            let (fname, form, text, want) = (g(1), g(2), g(3), g(4) == "1");
            if !self.cli.exists() {
                return Outcome::discard("roto CLI binary not built");
            }
            let _ = std::fs::remove_dir_all(&self.tmp);
            let sub = self.tmp.join("single").join("sub");
            let _ = std::fs::create_dir_all(&sub);
            let _ = std::fs::write(sub.join(&fname), &text);
            let (cwd, arg): (std::path::PathBuf, String) = match form.as_str() {
                "abs" => (self.tmp.clone(), sub.join(&fname).to_string_lossy().to_string()),
                "bare" => (sub.clone(), fname.clone()),
                "dot" => (sub.clone(), format!("./{fname}")),
                _ => (self.tmp.join("single"), format!("sub/{fname}")),
            };
            return match Command::new(&self.cli).args(["check", &arg]).current_dir(&cwd).output() {
                Ok(out) if out.status.success() == want => {
                    let mut o = Outcome::pass();
                    o.nontrivial = true;
                    o.render = Some(format!("roto check {arg}\n{text}"));
                    o
                }
                Ok(out) => Outcome::fail("cli-check-status:single-file", format!("`roto check {arg}` exit success = {}, script compiles = {want}\n{}\n{text}", out.status.success(), String::from_utf8_lossy(&out.stderr))),
                Err(e) => Outcome::fail("io", e.to_string()),
            };
        }
        if case.first().map(|c| c.as_slice()) == Some(b"#!cli-tests") {
            // literal: ["#!cli-tests", number of rejecting tests, number of accepting tests]
            let g = |i: usize| String::from_utf8_lossy(case.get(i).unwrap_or(&empty)).trim().parse::<usize>().unwrap_or(0);
            let (nr, na) = (g(1), g(2));
            if !self.cli.exists() {
                return Outcome::discard("roto CLI binary not built");
            }
            let _ = std::fs::remove_dir_all(&self.tmp);
            let _ = std::fs::create_dir_all(&self.tmp);
            let mut text = String::new();
            for i in 0..nr {
                let _ = writeln!(text, "test r{i} {{\n    reject\n}}");
            }
            for i in 0..na {
                let _ = writeln!(text, "test a{i} {{\n    accept\n}}");
            }
            let f = self.tmp.join("many.roto");
            let _ = std::fs::write(&f, &text);
            return match Command::new(&self.cli).args(["test", &f.to_string_lossy()]).output() {
                Ok(out) if out.status.success() == (nr == 0) => {
                    let mut o = Outcome::pass();
                    o.nontrivial = true;
                    o.hash = fnv(format!("cli-tests {nr} {na}").as_bytes());
                    o.classes.push("cli-many-tests".into());
                    o.render = Some(format!("roto test on {nr} rejecting and {na} accepting test blocks"));
                    o
                }
                Ok(out) => Outcome::fail("cli-test-status:many", format!("`roto test` on a script with {nr} rejecting and {na} accepting test blocks: exit success = {}\n{}", out.status.success(), String::from_utf8_lossy(&out.stdout).lines().rev().take(3).collect::<Vec<_>>().join("\n"))),
                Err(e) => Outcome::fail("io", e.to_string()),
            };
        }
        let ctl = case.first().unwrap_or(&empty);
        let s = decode(ctl);
        let text = self.render_only(case);
        let sub = case.get(1).unwrap_or(&empty);
        let mut c = Choices::new(sub);
        let is_cli = c.below(32) == 31;
        let r = if is_cli { self.cli(&s, &mut c, &text) } else { self.library(&s, &text) };
        match r {
            Ok(mut o) => {
                if render {
                    o.render = Some(text);
                }
                o
            }
            Err((sig, msg)) => {
                let mut f = Outcome::fail(sig, format!("{msg}\n{text}"));
                f.render = Some(text);
                f
            }
        }
    }
}

impl Prop for C19P {
    fn id(&self) -> &'static str {
        "C19"
    }
    fn fixed_cases(&self, _tier: Tier) -> Vec<Case> {
        // how many test blocks reject must not matter for the exit status, also around the sizes of
        // the integer types an exit status goes through
        [(0usize, 3usize), (1, 0), (255, 1), (256, 0), (257, 2), (512, 0), (65536 / 128, 1)]
            .iter()
            .map(|(r, a)| vec![b"#!cli-tests".to_vec(), r.to_string().into_bytes(), a.to_string().into_bytes()])
            .collect()
    }
    fn rule(&self) -> String {
        "scripts with 0-8 test blocks (plus fixed scripts with up to 512 rejecting blocks) over 1-4 modules, in two of three scripts with helper functions that call each other in a cycle, (the first child module is sometimes itself called `pkg`), names drawn from a pool shared with functions (collisions on purpose), each test logging a unique tag and ending in accept or reject after 0-2 early accept/reject exits under generated conditions (in if-blocks and while loops); library oracle: run_tests() is Ok iff every block's modelled outcome is accept, every tag is logged exactly once, get_tests() lists every test once, each listed test runs exactly its own body with the modelled result, the order of run_tests equals the order of get_tests and is identical across two compilations, a function calling a test does not compile, functions named like tests keep their behaviour; CLI oracle (about 3% of the cases, real `roto` binary built from /repo; the script as a directory with stray sub-directories, and as a single file under four names and four path spellings): check / test / run / run <fn> / run <missing> exit statuses equal the modelled ones and the entry function's print line appears exactly once. Non-trivial: >= 2 tests in >= 2 modules with mixed outcomes, or a name collision, or a CLI case; distinct by script text".into()
    }
    fn assumptions(&self) -> Vec<String> {
        vec!["the CLI's doc and print sub-commands are not driven".into(), "test outcomes are decided by constant conditions, so the model is exact".into()]
    }
    fn cases(&self, tier: Tier) -> u32 {
        match tier {
            Tier::Quick => 30_000,
            Tier::Thorough => 1_000_000,
        }
    }
    fn shape(&self, _tier: Tier) -> CaseShape {
        CaseShape::streams(&[120, 8])
    }
    fn worker(&self, _excl: &[String]) -> Box<dyn WorkerState> {
        let root = crate::runner::verif_root();
        Box::new(W {
            rt: host::build_runtime(),
            tmp: root.join(format!("harness/target/tmp-c19/{}", std::process::id())),
            cli: root.join("harness/target/cli/release/roto"),
        })
    }
    fn max_discard_rate(&self) -> f64 {
        0.1
    }
}
