//! Program-shaped properties C01, C02, C03, C08: generated well-typed program x
//! input vectors, differential against the reference interpreter, plus the
//! ownership invariants for C03.

use roto::{NoCtx, Runtime};

use crate::ast::*;
use crate::core::*;
use crate::pgen::{Gen, Profile, SCALAR_TYS};
use crate::host;
use crate::model::{self, Interp, PathInfo, Stop, V};
use crate::progexec::*;

#[derive(Clone, Copy, PartialEq, Eq, Debug)]
pub enum Kind {
    C01,
    C02,
    C03,
    C08,
}

pub struct ProgProp {
    pub kind: Kind,
}

pub static C01: ProgProp = ProgProp { kind: Kind::C01 };
pub static C02: ProgProp = ProgProp { kind: Kind::C02 };
pub static C03: ProgProp = ProgProp { kind: Kind::C03 };
pub static C08: ProgProp = ProgProp { kind: Kind::C08 };

const N_INPUTS: usize = 6;
const SLOTS: usize = 8;

pub fn profile_for(kind: Kind, excl: &[String]) -> Profile {
    let has = |s: &str| excl.iter().any(|e| e == s);
    let mut p = Profile::scalar();
    match kind {
        Kind::C01 => {}
        Kind::C02 => {
            p.aggregates = true;
            p.strings = true;
            p.lists = true;
            p.owning = true;
            p.budget = 320;
        }
        Kind::C03 => {
            p.aggregates = true;
            p.strings = true;
            p.lists = true;
            p.owning = true;
            p.budget = 300;
        }
        Kind::C08 => {
            p.aggregates = true;
            p.strings = true;
            p.lists = true;
            p.owning = true;
            p.effects = true;
            p.effect_weight = 90;
            p.budget = 300;
        }
    }
    // (accepted with a warning on this tree; which arm runs is part of C01/C02/C03/C08)
    p.dup_arms = true;
    p.excl_owning_in_while_cond = has("C03-F1");
    p.excl_owning_in_guard = has("C03-F2");
    p.excl_nonascii_fstring = has("C06-F2") || has("C09-F1");
    p.excl_tz = has("C03-F3");
    p.excl_zst_records = has("C02-F3");
    p
}

pub fn main_ret_choices(kind: Kind) -> Vec<Ty> {
    let mut v: Vec<Ty> = SCALAR_TYS.to_vec();
    v.push(Ty::Unit);
    if kind != Kind::C01 {
        v.push(Ty::Str);
    }
    v
}

struct W {
    kind: Kind,
    rt: Runtime<NoCtx>,
    prof: Profile,
}

fn nontrivial(kind: Kind, p: &PathInfo, log_len: usize) -> bool {
    match kind {
        Kind::C01 => (p.nonint32_ops > 0 || p.float_ops > 0 || p.not_ops > 0) && (p.control > 0 || p.calls > 0),
        Kind::C02 => p.field_writes > 0 || p.list_mutations > 0 || (p.aggregate_access > 0 && p.control > 0),
        Kind::C03 => p.early_exits > 0 || p.loop_iters >= 2 || p.guards_failed > 0 || p.short_circuit_skips > 0,
        Kind::C08 => {
            log_len >= 3 && (p.short_circuit_skips > 0 || p.guards_failed > 0 || p.loop_iters > 0 || p.early_exits > 0)
        }
    }
}

pub fn anomaly_kind(a: &str) -> &'static str {
    if a.contains("double drop") {
        "double-drop"
    } else if a.contains("drop of garbage") {
        "drop-of-garbage"
    } else if a.contains("use after drop") || a.contains("use of garbage") {
        "use-after-drop"
    } else {
        "anomaly"
    }
}

/// Literal-script case: ["#!script", source, expected log (one event per line)].
/// Runs `fn main()`, compares the host-call log and checks the ownership balance.
pub fn run_script_case(rt: &Runtime<NoCtx>, case: &Case) -> Option<Outcome> {
    if case.first().map(|c| c.as_slice()) != Some(b"#!script") {
        return None;
    }
    let src = String::from_utf8_lossy(case.get(1)?).to_string();
    let expected = String::from_utf8_lossy(case.get(2)?).to_string();
    let mut o = Outcome::pass();
    o.render = Some(src.clone());
    eprintln!("@@ctx script-case");
    let mut pkg = match host::compile(rt, &src) {
        Ok(p) => p,
        Err(e) => return Some(Outcome::fail("script-case:compile-error", format!("{e}\n{src}"))),
    };
    let f = match pkg.get_function::<fn()>("main") {
        Ok(f) => f,
        Err(e) => return Some(Outcome::fail("script-case:no-main", format!("{e}"))),
    };
    // warm-up call: one-time lazy allocations must not count as leaks
    host::reset(vec![1, 2, 3, 4, 5, 6]);
    f.call();
    host::reset(vec![1, 2, 3, 4, 5, 6]);
    let (live0, tz0) = host::live_count();
    host::alloc_window_start();
    f.call();
    let (net, _) = host::alloc_window_end();
    let log: Vec<String> = host::take_log().iter().map(model::show_ev).collect();
    let (live1, tz1) = host::live_count();
    let anomalies = host::anomalies();
    let got = log.join("\n");
    if got.trim() != expected.trim() {
        return Some(Outcome::fail("mismatch:host-call-log", format!("observed:\n{got}\nexpected:\n{expected}\n--- source ---\n{src}")));
    }
    if !anomalies.is_empty() {
        return Some(Outcome::fail(format!("ownership:{}", anomaly_kind(&anomalies[0])), format!("{anomalies:?}\n{src}")));
    }
    if live1 != live0 || tz1 != tz0 {
        return Some(Outcome::fail(
            format!(
                "{}:{}",
                if live1 > live0 || tz1 > tz0 { "ownership:leak-tracked" } else { "ownership:overdrop-tracked" },
                match (live1 != live0, tz1 != tz0) {
                    (true, true) => "Tr+Tz",
                    (true, false) => "Tr",
                    _ => "Tz",
                }
            ),
            format!("tracked live before {live0} Tr / {tz0} Tz, after {live1} Tr / {tz1} Tz\n{src}"),
        ));
    }
    if net != 0 {
        return Some(Outcome::fail(if net > 0 { "ownership:leak-bytes" } else { "ownership:overfree-bytes" }, format!("net heap bytes {net}\n{src}")));
    }
    o.nontrivial = true;
    o.hash = fnv(src.as_bytes());
    Some(o)
}

impl WorkerState for W {
    fn render_only(&mut self, case: &Case) -> String {
        if case.first().map(|c| c.as_slice()) == Some(b"#!script") {
            return String::from_utf8_lossy(case.get(1).map(|c| c.as_slice()).unwrap_or(b"")).to_string();
        }
        let prog = self.make_program(case);
        let mut out = print_program(&prog, Parens::Minimal);
        for i in 0..N_INPUTS {
            if let Some(chunk) = case.get(2 + i) {
                if i == 0 || !chunk.is_empty() {
                    let w = decode_inputs(chunk, SLOTS);
                    out.push_str(&format!("// input vector {i}: {:?}\n", w.iter().map(|x| format!("{x:#x}")).collect::<Vec<_>>()));
                }
            }
        }
        out
    }

    fn reduce(&mut self, case: &Case, sig: &str) -> String {
        if case.first().map(|c| c.as_slice()) == Some(b"#!script") {
            return String::new();
        }
        let prog = self.make_program(case);
        let sig = sig.to_string();
        if sig.starts_with("crash:") {
            // crash-type failure: evaluate every candidate in a forked child
            let want: String = sig.split(':').take(2).collect::<Vec<_>>().join(":");
            let reduced = crate::reduce::reduce(
                &prog,
                |cand| crate::worker::forked_sig(|| self.check_program(cand, case, false)).starts_with(&want),
                std::env::var("VERIF_REDUCE_BUDGET").ok().and_then(|s| s.parse().ok()).unwrap_or(1500),
            );
            return format!("{}\n// dies with {}", print_program(&reduced, Parens::Minimal), want);
        }
        let reduced = crate::reduce::reduce(
            &prog,
            |cand| {
                let o = crate::worker::guarded(|| self.check_program(cand, case, false));
                o.verdict == Verdict::Fail && o.sig == sig
            },
            3000,
        );
        let o = crate::worker::guarded(|| self.check_program(&reduced, case, false));
        format!("{}\n// {}", print_program(&reduced, Parens::Minimal), o.msg.lines().take(6).collect::<Vec<_>>().join("\n// "))
    }

    fn run(&mut self, case: &Case, render: bool) -> Outcome {
        if let Some(o) = run_script_case(&self.rt, case) {
            return o;
        }
        let prog = self.make_program(case);
        self.check_program(&prog, case, render)
    }
}

impl W {
    /// C02 draws 2 programs in 5 from the layout-directed generator (lgen.rs)
    fn make_program(&self, case: &Case) -> Program {
        let empty: Vec<u8> = Vec::new();
        let s0 = case.first().unwrap_or(&empty);
        let s1 = case.get(1).unwrap_or(&empty);
        if self.kind == Kind::C02 && s0.first().copied().unwrap_or(0) >= 154 {
            return crate::lgen::LGen::new(&s0[1..], true).program();
        }
        if self.kind == Kind::C01 && s0.first().copied().unwrap_or(0) >= 205 {
            // one program in five: the control flow of C01 (match above all) over declared types --
            // records, enums with up to four variants, options -- instead of scalars only
            let mut p = self.prof.clone();
            p.aggregates = true;
            p.budget = 260;
            return Gen::new(&s0[1..], s1, p).program(&main_ret_choices(self.kind));
        }
        Gen::new(s0, s1, self.prof.clone()).program(&main_ret_choices(self.kind))
    }

    fn check_program(&mut self, prog: &Program, case: &Case, render: bool) -> Outcome {
        check_program_with(&self.rt, self.kind, prog, None, case, render)
    }
}

/// Run `prog` (compiled from `src_override` if given, else from its minimal-parentheses
/// rendering) on the input vectors of `case` and compare with the reference interpreter.
pub fn check_program_with(
    rt: &Runtime<NoCtx>,
    kind: Kind,
    prog: &Program,
    src_override: Option<String>,
    case: &Case,
    render: bool,
) -> Outcome {
    let this = Shim { kind, rt };
    this.check(prog, src_override, case, render)
}

struct Shim<'a> {
    kind: Kind,
    rt: &'a Runtime<NoCtx>,
}

impl Shim<'_> {
    fn check(&self, prog: &Program, src_override: Option<String>, case: &Case, render: bool) -> Outcome {
        let empty: Vec<u8> = Vec::new();
        let (src, compiled) = match src_override {
            None => compile_program(self.rt, prog, Parens::Minimal),
            Some(text) => {
                let r = crate::host::compile(self.rt, &text).and_then(|mut pkg| {
                    let main = &prog.funcs[0];
                    let f = get_main(&mut pkg, &main.ret, !main.params.is_empty())?;
                    Ok((pkg, f))
                });
                (text, r)
            }
        };
        let (pkg, mainf) = match compiled {
            Ok(x) => x,
            Err(e) => {
                return Outcome::discard(format!("generated program rejected by the compiler:\n{e}\n--- source ---\n{src}"));
            }
        };
        let main = &prog.funcs[0];
        let mut o = Outcome::pass();
        o.evals = 0;
        let mut agg = PathInfo::default();
        let mut any_nt = false;
        let mut rendered_inputs = Vec::new();
        let mut excluded: std::collections::BTreeMap<String, u64> = Default::default();
        for i in 0..N_INPUTS {
            let chunk = case.get(2 + i).unwrap_or(&empty);
            if i > 0 && chunk.is_empty() {
                continue;
            }
            let words = decode_inputs(chunk, SLOTS);
            let (inp, args) = (words[..6].to_vec(), (words[6], words[7]));
            // 1. model
            let mut it = Interp::new(prog, inp.clone(), 300_000);
            let margs = if main.params.is_empty() { vec![] } else { main_args(&main.ret, args.0, args.1) };
            let expected = it.call_fn(0, margs.clone());
            let exp = match expected {
                Ok(v) => v,
                Err(Stop::Return(v)) => v,
                Err(Stop::Trap(k)) => {
                    let id = if k.contains("by-zero") { "C10-F1" } else { "C10-F2" };
                    *excluded.entry(id.to_string()).or_default() += 1;
                    continue;
                }
                Err(Stop::Budget) => {
                    o.classes.push("model-budget-exceeded".into());
                    continue;
                }
                Err(Stop::Unspecified(what)) => {
                    o.classes.push(format!("unspecified:{what}"));
                    continue;
                }
                Err(Stop::Unsupported(m)) => {
                    return Outcome::discard(format!("model cannot interpret generated program: {m}\n--- source ---\n{src}"));
                }
            };
            // 2. real
            if self.kind == Kind::C03 {
                // warm-up call so that one-time lazy allocations are not counted as leaks
                host::reset(inp.clone());
                drop(call_main(&mainf, args.0, args.1));
            }
            host::reset(inp.clone());
            let (live0, tz0) = host::live_count();
            if self.kind == Kind::C03 {
                host::alloc_window_start();
            }
            let got = call_main(&mainf, args.0, args.1);
            let got_for_cmp = host::uncounted(|| got.clone());
            drop(got);
            let (net, _nalloc) = if self.kind == Kind::C03 { host::alloc_window_end() } else { (0, 0) };
            let log = host::take_log();
            let (live1, tz1) = host::live_count();
            let anomalies = host::anomalies();
            o.evals += 1;
            let ctx = || {
                format!(
                    "inputs in_*(k): {:?}\nmain args: {}\n--- source ---\n{}",
                    inp.iter().map(|w| format!("{w:#x}")).collect::<Vec<_>>(),
                    margs.iter().map(model::show).collect::<Vec<_>>().join(", "),
                    src
                )
            };
            if !model::same(&got_for_cmp, &exp) {
                let mut f = Outcome::fail(
                    "mismatch:return-value",
                    format!("main returned {} but the language defines {}\n{}", model::show(&got_for_cmp), model::show(&exp), ctx()),
                );
                f.render = Some(src.clone());
                return f;
            }
            let same_log = log.len() == it.log.len() && log.iter().zip(it.log.iter()).all(|(a, b)| model::ev_same(a, b));
            if !same_log {
                let show_log = |l: &[model::Ev]| l.iter().map(model::show_ev).collect::<Vec<_>>().join("; ");
                let mut f = Outcome::fail(
                    "mismatch:host-call-log",
                    format!("host calls observed: [{}]\nhost calls expected: [{}]\n{}", show_log(&log), show_log(&it.log), ctx()),
                );
                f.render = Some(src.clone());
                return f;
            }
            if !anomalies.is_empty() {
                let mut f = Outcome::fail(
                    format!("ownership:{}", anomaly_kind(&anomalies[0])),
                    format!("ownership anomalies: {:?}\n{}", anomalies, ctx()),
                );
                f.render = Some(src.clone());
                return f;
            }
            if matches!(self.kind, Kind::C03 | Kind::C02 | Kind::C08) && (live1 != live0 || tz1 != tz0) {
                let mut f = Outcome::fail(
                    format!(
                        "{}:{}",
                        if live1 > live0 || tz1 > tz0 { "ownership:leak-tracked" } else { "ownership:overdrop-tracked" },
                        match (live1 != live0, tz1 != tz0) {
                            (true, true) => "Tr+Tz",
                            (true, false) => "Tr",
                            _ => "Tz",
                        }
                    ),
                    format!(
                        "tracked values live before the call: {live0} Tr / {tz0} Tz, after the call and dropping the result: {live1} Tr / {tz1} Tz\n{}",
                        ctx()
                    ),
                );
                f.render = Some(src.clone());
                return f;
            }
            if self.kind == Kind::C03 && net != 0 {
                let mut f = Outcome::fail(
                    if net > 0 { "ownership:leak-bytes" } else { "ownership:overfree-bytes" },
                    format!("net heap bytes over call + drop of result: {net}\n{}", ctx()),
                );
                f.render = Some(src.clone());
                return f;
            }
            if nontrivial(self.kind, &it.path, log.len()) {
                any_nt = true;
            }
            if render && rendered_inputs.len() < 2 {
                rendered_inputs.push(format!(
                    "inputs {:?} args [{}] => {} ; log len {}",
                    inp.iter().map(|w| format!("{w:#x}")).collect::<Vec<_>>(),
                    margs.iter().map(model::show).collect::<Vec<_>>().join(", "),
                    model::show(&exp),
                    log.len()
                ));
            }
            let p = &it.path;
            agg.nonint32_ops += p.nonint32_ops;
            agg.float_ops += p.float_ops;
            agg.control += p.control;
            agg.calls += p.calls;
            agg.short_circuit_skips += p.short_circuit_skips;
            agg.loop_iters += p.loop_iters;
            agg.guards_failed += p.guards_failed;
            agg.early_exits += p.early_exits;
            agg.try_none += p.try_none;
            agg.try_some += p.try_some;
            agg.field_writes += p.field_writes;
            agg.list_mutations += p.list_mutations;
            agg.host_calls += p.host_calls;
        }
        drop(mainf);
        drop(pkg);
        o.excluded = excluded.into_iter().collect();
        o.nontrivial = any_nt;
        o.hash = fnv(src.as_bytes());
        let mut cl = |name: &str, n: u32| {
            if n > 0 {
                o.classes.push(name.to_string());
            }
        };
        cl("path:non-i32-int-op", agg.nonint32_ops);
        cl("path:float-op", agg.float_ops);
        cl("path:control-flow", agg.control);
        cl("path:script-call", agg.calls);
        cl("path:short-circuit-skip", agg.short_circuit_skips);
        cl("path:loop-iteration", agg.loop_iters);
        cl("path:guard-failed", agg.guards_failed);
        cl("path:early-exit", agg.early_exits);
        cl("path:try-none", agg.try_none);
        cl("path:try-some", agg.try_some);
        cl("path:field-write", agg.field_writes);
        cl("path:list-mutation", agg.list_mutations);
        cl("path:host-call", agg.host_calls);
        if !main.params.is_empty() {
            o.classes.push("main-with-args".into());
        }
        o.classes.push(format!("main-ret:{}", crate::pgen::ty_short(&main.ret)));
        if render {
            o.render = Some(format!("{}\n// {}", src, rendered_inputs.join("\n// ")));
        }
        o
    }
}

impl Prop for ProgProp {
    fn id(&self) -> &'static str {
        match self.kind {
            Kind::C01 => "C01",
            Kind::C02 => "C02",
            Kind::C03 => "C03",
            Kind::C08 => "C08",
        }
    }
    fn rule(&self) -> String {
        let common = "well-typed programs decoded from a proptest byte stream by a type-directed generator (1-5 functions, fuelled recursion and loops), each run on up to 6 input vectors drawn from boundary words and random words; expected return value and host-call log computed by the reference interpreter; distinct by program text; ";
        let nt = match self.kind {
            Kind::C01 => "non-trivial: the executed path contains an operator at a width other than i32 or a float/bool operation AND a control-flow construct or script call",
            Kind::C02 => "non-trivial: the executed path writes a (nested) record field or mutates a list, or reads aggregate components under control flow (scalar/aggregate profile with records, enums, options, lists, strings, host types)",
            Kind::C03 => "non-trivial: the executed path leaves a block early (return/accept/reject/?-None), fails a guard, skips a short-circuit operand or iterates a loop at least twice, with owning values (Tr, Tz, String, List) in scope; oracle additionally: tracked live-set unchanged, no double drop / drop of garbage / use after drop, zero net heap bytes over call + drop of result",
            Kind::C08 => "non-trivial: host-call log has length >= 3 and the path contains a short-circuit skip, a failed guard, a loop iteration or an early exit; oracle: ordered log of (marker, arguments) equals the model's log",
        };
        format!("{common}{nt}")
    }
    fn assumptions(&self) -> Vec<String> {
        vec![
            "the reference interpreter (harness/src/model.rs) encodes the documented semantics: wrapping two's-complement integers, truncating division, IEEE-754 floats via Rust f32/f64, value semantics for aggregates, shared lists, left-to-right evaluation".into(),
            "float results compared bitwise except that any NaN equals any NaN".into(),
            "(program, input) pairs the model predicts to trap (integer division by zero) are not executed (MIN / -1 wraps and is executed) and are counted under excluded_by_known_finding".into(),
            "program size is bounded (expression depth <= 5, node budget ~300)".into(),
        ]
    }
    fn cases(&self, tier: Tier) -> u32 {
        match (self.kind, tier) {
            (_, Tier::Quick) => 40_000,
            (_, Tier::Thorough) => 1_500_000,
        }
    }
    fn shape(&self, _tier: Tier) -> CaseShape {
        CaseShape::streams(&[700, 300, 72, 72, 72, 72, 72, 72])
    }
    fn worker(&self, excl: &[String]) -> Box<dyn WorkerState> {
        Box::new(W { kind: self.kind, rt: host::build_runtime(), prof: profile_for(self.kind, excl) })
    }
    fn max_shrink(&self) -> u32 {
        4000
    }
}
