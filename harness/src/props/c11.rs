//! C11 — Function handles keep alive exactly what they need (hot reload safe).
//!
//! Histories over the embedding API (build runtime, compile script version, get /
//! clone / call / drop handles, drop packages and runtimes, drop the last clone on
//! another thread) checked against a liveness model over drop-tracked values.

use std::collections::BTreeMap;

use roto::{Constant, Function, Impl, Library, NoCtx, Package, Runtime, Type, TypedFunc, Val, location};

use crate::core::*;
use crate::host::{self, Tr, Tz};

pub struct C11P;
pub static C11: C11P = C11P;

type Handle = TypedFunc<NoCtx, fn(i32) -> i32>;

pub fn live_by_tag() -> BTreeMap<i32, usize> {
    host::track(|h| {
        let mut m = BTreeMap::new();
        for t in h.live.values() {
            *m.entry(*t).or_insert(0) += 1;
        }
        m
    })
}

/// closures made by one factory have one Rust type but different captured state
fn tagged_closure(tag: i32) -> impl Fn() -> i32 + Send + Sync + 'static {
    let cap = Tr::new(tag);
    move || -> i32 {
        let c: &Tr = &cap;
        c.touch("captured by a factory-made closure");
        c.tag as i32
    }
}

pub fn build_runtime(k: i32) -> Runtime<NoCtx> {
    let mut lib = Library::new();
    lib.add(Type::clone::<Val<Tz>>("Tz", "", location!()).unwrap().into());
    lib.add(Function::new("mkz", "", vec![], || -> Val<Tz> { Val(Tz::new()) }, location!()).unwrap().into());
    // takes (and drops) a copy of a zero-sized value
    lib.add(Function::new("hz", "", vec!["z"], |_z: Val<Tz>| -> i32 { 0 }, location!()).unwrap().into());
    lib.add(Function::new("host_a", "", vec![], tagged_closure(500 + k), location!()).unwrap().into());
    lib.add(Function::new("host_b", "", vec![], tagged_closure(600 + k), location!()).unwrap().into());
    lib.add(Type::clone::<Val<Tr>>("Tr", "", location!()).unwrap().into());
    lib.add(Function::new("mk", "", vec!["k"], |k: i32| -> Val<Tr> { Val(Tr::new(k)) }, location!()).unwrap().into());
    let mut im = Impl::new::<Val<Tr>>(location!());
    im.add(Function::new("tag", "", vec!["x"], |x: Val<Tr>| -> i32 { x.0.touch("tag"); x.0.tag as i32 }, location!()).unwrap());
    lib.add(im.into());
    lib.add(Constant::new("REG", "", Val(Tr::new(100 + k)), location!()).unwrap().into());
    // the capture is moved into the closure as a whole value
    let cap = Tr::new(200 + k);
    lib.add(
        Function::new(
            "host",
            "",
            vec![],
            move || -> i32 {
                let c: &Tr = &cap;
                c.touch("captured");
                c.tag as i32
            },
            location!(),
        )
        .unwrap()
        .into(),
    );
    // a second closure that no script uses
    let unused = Tr::new(400 + k);
    lib.add(Function::new("unused_host", "", vec![], move || -> i32 { let u: &Tr = &unused; u.tag as i32 }, location!()).unwrap().into());
    Runtime::from_lib(lib).expect("runtime")
}

/// Version `v` of the package: two modules, each with a constant `K` holding a tracked value,
/// a record constant with a tracked field (read through a field), constants whose
/// initialisers leave droppable temporaries behind, a zero-sized constant.
pub fn script_files(v: i32) -> Vec<(String, String)> {
    let root = format!(
        "record Conf {{\n    t: Tr,\n    n: i32,\n}}\nconst K: Tr = mk({k});\nconst Z: Tz = mkz();\nconst C: Conf = Conf {{ t: mk({c}), n: 5 }};\nconst SAME: bool = REG == REG;\nconst N: i32 = C.n + K.tag() - K.tag();\nfn f(x: i32) -> i32 {{\n    x * {v} + K.tag() + REG.tag() + host() + host_a() - host_b() + C.n - N + (if SAME {{ 0 }} else {{ 1000 }}) + C.t.tag() - {c} + m1.g() - {m} + hz(Z) + (if banner().ends_with(\"version {v}\") {{ 0 }} else {{ 100000 }}) + smalls() + trs() + plain(x)\n}}\nrecord Plain {{\n    a: i32,\n    b: i64,\n}}\nconst PL: Plain = Plain {{ a: 5, b: 6 }};\nconst IP: IpAddr = 10.0.0.1;\nconst PF: Prefix = 10.0.0.0 / 8;\nfn plain(x: i32) -> i32 {{\n    let p = PL;\n    p.a = p.a + x + 1;\n    p.b = 0;\n    let q = IP;\n    q = 10.0.0.2;\n    let r = PF;\n    r = 192.168.0.0 / 16;\n    (if PL.a == 5 && PL.b == 6 && IP == 10.0.0.1 && PF == 10.0.0.0 / 8 {{ 0 }} else {{ 1000000 }}) + p.a - x - 6 + (if q == 10.0.0.2 && r == 192.168.0.0 / 16 {{ 0 }} else {{ 7 }})\n}}\nconst S1: i32 = {s1};\nconst S2: u8 = 2;\nconst S3: i64 = 3;\nconst S4: u16 = 4;\nconst S5: bool = true;\nconst S6: u32 = 6;\nconst S7: i8 = 7;\nconst S8: char = 'x';\nconst S9: f32 = 9.5;\nconst S10: f64 = 10.5;\nconst S11: u64 = 11;\nconst S12: i16 = 12;\nfn base() -> i32 {{\n    S1\n}}\nconst LATE: i32 = base() + 1;\nconst S13: i32 = 13;\nconst S14: i32 = 14;\nconst S15: i32 = 15;\nconst S16: i32 = 16;\nconst S17: i32 = LATE + 1;\nfn smalls() -> i32 {{\n    (if S2 == 2 && S3 == 3 && S4 == 4 && S5 && S6 == 6 && S7 == 7 && S8 == 'x' && S9 == 9.5 && S10 == 10.5 && S11 == 11 && S12 == 12 && S13 == 13 && S14 == 14 && S15 == 15 && S16 == 16 {{ 0 }} else {{ 10000 }}) + base() - {s1} + LATE - {s1} - 1 + S17 - {s1} - 2\n}}\nfn trs() -> i32 {{\n    let l = [mk(9), mk(8)];\n    l.push(mk(7));\n    let e: List[Tr] = [];\n    e.push(mk(6));\n    (match l.get(2) {{ Some(t) => t.tag() - 7, None => 500 }}) + (match e.get(0) {{ Some(t) => t.tag() - 6, None => 700 }})\n}}\nfn banner() -> String {{\n    \"a string literal of more than one hundred and twenty-eight bytes, so that whatever the code generator does with large read-only data applies to it; it names its version {v}\"\n}}\nfn other(x: i32) -> i32 {{\n    K.tag() - x\n}}\n",
        k = 300 + v,
        c = 700 + v,
        m = 800 + v,
        s1 = 40 + v
    );
    let m1 = format!("const K: Tr = mk({});\nfn g() -> i32 {{\n    K.tag()\n}}\n", 800 + v);
    vec![("pkg".to_string(), root), ("m1".to_string(), m1)]
}

pub fn script(v: i32) -> String {
    script_files(v).iter().map(|(n, t)| format!("=== {n}.roto ===\n{t}")).collect()
}

pub fn compile_version(rt: &Runtime<NoCtx>, v: i32) -> Result<Package<NoCtx>, String> {
    crate::props::c06::build_tree(&script_files(v)).compile(rt).map_err(|e| host::render_report(&e))
}

struct St {
    runtimes: Vec<Option<(Runtime<NoCtx>, i32)>>,
    packages: Vec<Option<(Package<NoCtx>, usize, i32)>>,
    /// handle, package index, which function (0 = f, 1 = other)
    handles: Vec<Option<(Handle, usize, u8)>>,
    /// closures made with into_func(): closure, package index, which function
    funcs: Vec<Option<(Box<dyn Fn(i32) -> i32>, usize, u8)>>,
    /// per package: (runtime index, version) even after the package was dropped
    pkg_info: Vec<(usize, i32)>,
    /// per package: page-aligned regions and bytes that its compilation left allocated (machine code and data of the JIT)
    pkg_pages: Vec<(i64, i64)>,
    rt_info: Vec<i32>,
}

struct W;

fn pick<T>(v: &[Option<T>], b: u8) -> Option<usize> {
    let live: Vec<usize> = (0..v.len()).filter(|i| v[*i].is_some()).collect();
    if live.is_empty() { None } else { Some(live[(b as usize * live.len()) >> 8]) }
}

impl WorkerState for W {
    fn render_only(&mut self, case: &Case) -> String {
        format!("{} operations", case.len())
    }

    fn run(&mut self, case: &Case, render: bool) -> Outcome {
        host::reset(vec![]);
        let base = live_by_tag();
        let base_tz = host::live_count().1;
        let mut st = St { runtimes: vec![], packages: vec![], handles: vec![], funcs: vec![], pkg_info: vec![], pkg_pages: vec![], rt_info: vec![] };
        let base_pages = host::page_regions();
        let mut unwound = false;
        let mut trace: Vec<String> = Vec::new();
        let mut call_after_drop = false;
        let mut recompiled = false;
        let mut next_k = 0;
        let fail = |sig: &str, msg: String, trace: &[String]| -> Outcome {
            let text = format!("{msg}\nhistory:\n  {}", trace.join("\n  "));
            let mut f = Outcome::fail(sig, text.clone());
            f.render = Some(text);
            f
        };
        for op in case {
            if op.len() < 3 {
                continue;
            }
            let (code, a, b) = (op[0] % 16, op[1], op[2]);
            match code {
                0 => {
                    if st.runtimes.iter().flatten().count() < 3 {
                        let k = next_k;
                        next_k += 1;
                        st.runtimes.push(Some((build_runtime(k), k)));
                        st.rt_info.push(k);
                        trace.push(format!("rt{} = build_runtime({k})", st.runtimes.len() - 1));
                    }
                }
                1 | 2 => {
                    if let Some(r) = pick(&st.runtimes, a) {
                        if st.packages.iter().flatten().count() < 4 {
                            let v = 1 + (b % 3) as i32;
                            let rt = &st.runtimes[r].as_ref().unwrap().0;
                            let pages_before = host::page_regions();
                            let pkg = match compile_version(rt, v) {
                                Ok(p) => p,
                                Err(e) => return fail("rejected", e, &trace),
                            };
                            let pages_after = host::page_regions();
                            st.pkg_pages.push((pages_after.0 - pages_before.0, pages_after.1 - pages_before.1));
                            if st.pkg_info.iter().any(|(_, pv)| *pv == v) {
                                recompiled = true;
                            }
                            st.packages.push(Some((pkg, r, v)));
                            st.pkg_info.push((r, v));
                            trace.push(format!("pkg{} = compile(rt{r}, version {v})", st.packages.len() - 1));
                        }
                    }
                }
                3 | 4 => {
                    if let Some(p) = pick(&st.packages, a) {
                        if st.handles.iter().flatten().count() < 6 {
                            let which = b % 2;
                            let name = if which == 0 { "f" } else { "other" };
                            let h = match st.packages[p].as_mut().unwrap().0.get_function::<fn(i32) -> i32>(name) {
                                Ok(h) => h,
                                Err(e) => return fail("get_function", format!("{e}"), &trace),
                            };
                            st.handles.push(Some((h, p, which)));
                            trace.push(format!("h{} = pkg{p}.get_function({name:?})", st.handles.len() - 1));
                        }
                    }
                }
                5 => {
                    if let Some(h) = pick(&st.handles, a) {
                        if st.handles.iter().flatten().count() < 6 {
                            let (hh, p, w) = st.handles[h].as_ref().unwrap();
                            let c = (hh.clone(), *p, *w);
                            st.handles.push(Some(c));
                            trace.push(format!("h{} = h{h}.clone()", st.handles.len() - 1));
                        }
                    }
                }
                6 | 7 => {
                    if let Some(h) = pick(&st.handles, a) {
                        let (hh, p, w) = st.handles[h].as_ref().unwrap();
                        let (r, v) = st.pkg_info[*p];
                        let k = st.rt_info[r];
                        let x = (b as i32) - 100;
                        let want = if *w == 0 { x.wrapping_mul(v).wrapping_add(300 + v).wrapping_add(100 + k).wrapping_add(200 + k).wrapping_sub(100) } else { (300 + v).wrapping_sub(x) };
                        eprintln!("@@ctx call-handle");
                        let got = hh.call(x);
                        trace.push(format!("h{h}.call({x}) = {got}"));
                        if st.packages[*p].is_none() || st.runtimes[r].is_none() {
                            call_after_drop = true;
                        }
                        if got != want {
                            return fail("wrong-result", format!("h{h}({x}) returned {got}, expected {want} (package version {v}, runtime {k})"), &trace);
                        }
                    }
                }
                8 => {
                    if let Some(h) = pick(&st.handles, a) {
                        st.handles[h] = None;
                        trace.push(format!("drop h{h}"));
                    }
                }
                9 => {
                    if let Some(p) = pick(&st.packages, a) {
                        st.packages[p] = None;
                        trace.push(format!("drop pkg{p}"));
                    }
                }
                10 => {
                    if let Some(r) = pick(&st.runtimes, a) {
                        st.runtimes[r] = None;
                        trace.push(format!("drop rt{r}"));
                    }
                }
                11 => {
                    // the owner of a handle / package / closure dies while a panic unwinds its frame
                    // (resume_unwind: no panic hook, no message)
                    use std::panic::{AssertUnwindSafe, catch_unwind, resume_unwind};
                    match b % 4 {
                        3 => {
                            // a fresh package of its own: its last two owners (two clones of one handle) are dropped
                            // on two threads at the same moment, four times over; whatever the compilations
                            // allocated is gone afterwards (the page accounting after this step says so)
                            if let Some(r) = pick(&st.runtimes, a) {
                                let v = 1 + (b as i32 / 4) % 3;
                                for round in 0..4 {
                                    let rt = &st.runtimes[r].as_ref().unwrap().0;
                                    let mut pkg = match compile_version(rt, v) {
                                        Ok(p) => p,
                                        Err(e) => return fail("rejected", e, &trace),
                                    };
                                    let h1 = match pkg.get_function::<fn(i32) -> i32>("other") {
                                        Ok(h) => h,
                                        Err(e) => return fail("get_function", format!("{e}"), &trace),
                                    };
                                    drop(pkg);
                                    let h2 = h1.clone();
                                    // a spin gate: both threads leave it within nanoseconds of each other
                                    let ready = std::sync::Arc::new(std::sync::atomic::AtomicUsize::new(0));
                                    let mut ths = Vec::new();
                                    for h in [h1, h2] {
                                        let ready = ready.clone();
                                        ths.push(std::thread::spawn(move || {
                                            ready.fetch_add(1, std::sync::atomic::Ordering::SeqCst);
                                            while ready.load(std::sync::atomic::Ordering::SeqCst) < 2 {
                                                std::hint::spin_loop();
                                            }
                                            drop(h);
                                        }));
                                    }
                                    for t in ths {
                                        if t.join().is_err() {
                                            return fail("thread-panicked", "the thread dropping the handle panicked".into(), &trace);
                                        }
                                    }
                                    if round == 0 {
                                        trace.push(format!("4 x: compile(rt{r}, version {v}), get a handle, drop the package, drop two clones of the handle on two threads at once"));
                                    }
                                }
                            }
                        }
                        0 => {
                            if let Some(h) = pick(&st.handles, a) {
                                let (hh, p, w) = st.handles[h].take().unwrap();
                                let (r, v) = st.pkg_info[p];
                                let k = st.rt_info[r];
                                let want = if w == 0 { 7i32.wrapping_mul(v).wrapping_add(300 + v).wrapping_add(100 + k).wrapping_add(200 + k).wrapping_sub(100) } else { (300 + v).wrapping_sub(7) };
                                let mut got = 0;
                                let res = catch_unwind(AssertUnwindSafe(|| {
                                    let owner = hh;
                                    got = owner.call(7);
                                    resume_unwind(Box::new(()));
                                }));
                                trace.push(format!("h{h} moved into a frame that calls it ({got}) and then unwinds"));
                                unwound = true;
                                if res.is_ok() {
                                    return fail("harness", "the frame did not unwind".into(), &trace);
                                }
                                if got != want {
                                    return fail("wrong-result", format!("h{h}(7) returned {got}, expected {want}"), &trace);
                                }
                            }
                        }
                        1 => {
                            if let Some(p) = pick(&st.packages, a) {
                                let pkg = st.packages[p].take().unwrap();
                                let res = catch_unwind(AssertUnwindSafe(|| {
                                    let _owner = pkg;
                                    resume_unwind(Box::new(()));
                                }));
                                trace.push(format!("pkg{p} moved into a frame that unwinds"));
                                unwound = true;
                                if res.is_ok() {
                                    return fail("harness", "the frame did not unwind".into(), &trace);
                                }
                            }
                        }
                        _ => {
                            if let Some(fi) = pick(&st.funcs, a) {
                                let f = st.funcs[fi].take().unwrap();
                                let res = catch_unwind(AssertUnwindSafe(|| {
                                    let _owner = f;
                                    resume_unwind(Box::new(()));
                                }));
                                trace.push(format!("c{fi} moved into a frame that unwinds"));
                                unwound = true;
                                if res.is_ok() {
                                    return fail("harness", "the frame did not unwind".into(), &trace);
                                }
                            }
                        }
                    }
                }
                12 => {
                    // a clone of a handle becomes an `impl Fn`
                    if let Some(h) = pick(&st.handles, a) {
                        if st.funcs.iter().flatten().count() < 4 {
                            let (hh, p, w) = st.handles[h].as_ref().unwrap();
                            let f = hh.clone().into_func();
                            st.funcs.push(Some((Box::new(f), *p, *w)));
                            trace.push(format!("c{} = h{h}.clone().into_func()", st.funcs.len() - 1));
                        }
                    }
                }
                13 => {
                    if let Some(fi) = pick(&st.funcs, a) {
                        let (f, p, w) = st.funcs[fi].as_ref().unwrap();
                        let (r, v) = st.pkg_info[*p];
                        let k = st.rt_info[r];
                        let x = (b as i32) - 100;
                        let want = if *w == 0 { x.wrapping_mul(v).wrapping_add(300 + v).wrapping_add(100 + k).wrapping_add(200 + k).wrapping_sub(100) } else { (300 + v).wrapping_sub(x) };
                        eprintln!("@@ctx call-closure");
                        let got = f(x);
                        trace.push(format!("c{fi}({x}) = {got}"));
                        if st.packages[*p].is_none() || st.runtimes[r].is_none() {
                            call_after_drop = true;
                        }
                        if got != want {
                            return fail("wrong-result", format!("closure c{fi}({x}) returned {got}, expected {want} (package version {v}, runtime {k})"), &trace);
                        }
                    }
                }
                14 => {
                    if let Some(fi) = pick(&st.funcs, a) {
                        st.funcs[fi] = None;
                        trace.push(format!("drop c{fi}"));
                    }
                }
                15 => {
                    // several threads clone, call and drop clones of one handle at the same time
                    if let Some(h) = pick(&st.handles, a) {
                        let (hh, p, w) = st.handles[h].as_ref().unwrap();
                        let (r, v) = st.pkg_info[*p];
                        let k = st.rt_info[r];
                        let want = if *w == 0 { 7i32.wrapping_mul(v).wrapping_add(300 + v).wrapping_add(100 + k).wrapping_add(200 + k).wrapping_sub(100) } else { (300 + v).wrapping_sub(7) };
                        let n_threads = 2 + (b as usize % 3);
                        let barrier = std::sync::Arc::new(std::sync::Barrier::new(n_threads));
                        let mut ths = Vec::new();
                        for _ in 0..n_threads {
                            let (hc, barrier) = (hh.clone(), barrier.clone());
                            ths.push(std::thread::spawn(move || -> bool {
                                barrier.wait();
                                let mut ok = true;
                                for i in 0..300 {
                                    let c1 = hc.clone();
                                    let c2 = c1.clone();
                                    drop(c1);
                                    if i % 50 == 0 {
                                        ok &= c2.call(7) == want;
                                    }
                                    drop(c2);
                                }
                                ok
                            }));
                        }
                        trace.push(format!("{n_threads} threads clone, call and drop clones of h{h} at the same time"));
                        for t in ths {
                            match t.join() {
                                Ok(true) => {}
                                Ok(false) => return fail("wrong-result", format!("a clone of h{h} called on another thread did not return {want}"), &trace),
                                Err(_) => return fail("thread-panicked", "a thread cloning the handle panicked".into(), &trace),
                            }
                        }
                        if st.packages[*p].is_none() || st.runtimes[r].is_none() {
                            call_after_drop = true;
                        }
                    }
                }
                _ => {
                    // the handle is moved to another thread, called there and dropped there
                    if let Some(h) = pick(&st.handles, a) {
                        let (hh, p, w) = st.handles[h].take().unwrap();
                        let (r, v) = st.pkg_info[p];
                        let k = st.rt_info[r];
                        let want = if w == 0 { 7i32.wrapping_mul(v).wrapping_add(300 + v).wrapping_add(100 + k).wrapping_add(200 + k).wrapping_sub(100) } else { (300 + v).wrapping_sub(7) };
                        // the other thread has its own (empty) tracking state: report drops back
                        let got = std::thread::spawn(move || {
                            let r = hh.call(7);
                            drop(hh);
                            (r, ())
                        })
                        .join();
                        trace.push(format!("h{h} sent to a thread, called and dropped there"));
                        match got {
                            Ok((r, _)) if r == want => {}
                            Ok((r, _)) => return fail("wrong-result", format!("on another thread h{h}(7) returned {r}, expected {want}"), &trace),
                            Err(_) => return fail("thread-panicked", "the thread calling the handle panicked".into(), &trace),
                        }
                    }
                }
            }
            // liveness model over tags
            let now = live_by_tag();
            let count = |tag: i32| -> usize { now.get(&tag).copied().unwrap_or(0).saturating_sub(base.get(&tag).copied().unwrap_or(0)) };
            // runtime k is referred to by itself, by packages compiled from it and by their handles
            for (ri, k) in st.rt_info.iter().enumerate() {
                let referred = st.runtimes[ri].is_some()
                    || st.packages.iter().flatten().any(|(_, r, _)| *r == ri)
                    || st.handles.iter().flatten().any(|(_, p, _)| st.pkg_info[*p].0 == ri)
                    || st.funcs.iter().flatten().any(|(_, p, _)| st.pkg_info[*p].0 == ri);
                for tag in [100 + k, 200 + k, 500 + k, 600 + k] {
                    // values dropped on another thread are not visible in this thread's live set;
                    // that only happens when the last referrer was a handle dropped there (then nothing refers to them any more)
                    if referred && count(tag) == 0 {
                        return fail("released-too-early", format!("tracked value with tag {tag} (runtime {k}) was dropped while a runtime, package or handle still refers to it"), &trace);
                    }
                }
            }
            for (pi, (_, v)) in st.pkg_info.iter().enumerate() {
                let referred = st.packages[pi].is_some() || st.handles.iter().flatten().any(|(_, p, _)| *p == pi) || st.funcs.iter().flatten().any(|(_, p, _)| *p == pi);
                let same_version_referred = st.pkg_info.iter().enumerate().any(|(pj, (_, w))| {
                    w == v && (st.packages[pj].is_some() || st.handles.iter().flatten().any(|(_, p, _)| *p == pj) || st.funcs.iter().flatten().any(|(_, p, _)| *p == pj))
                });
                for tag in [300 + v, 700 + v, 800 + v] {
                    if referred && count(tag) == 0 {
                        return fail("released-too-early", format!("script constant with tag {tag} was dropped while its package or a handle is alive"), &trace);
                    }
                    if !same_version_referred && count(tag) > 0 {
                        return fail("not-released", format!("script constant with tag {tag} is still alive although every package and handle of that version is gone"), &trace);
                    }
                }
            }
            // the zero-sized script constant Z lives once per compiled package that is still referred to
            let z_expected = (0..st.pkg_info.len())
                .filter(|pi| st.packages[*pi].is_some() || st.handles.iter().flatten().any(|(_, p, _)| p == pi) || st.funcs.iter().flatten().any(|(_, p, _)| p == pi))
                .count() as i64;
            let z_now = host::live_count().1 - base_tz;
            if z_now != z_expected {
                let sig = if z_now > z_expected { "not-released" } else { "released-too-early" };
                return fail(sig, format!("{z_now} values of the zero-sized constant `Z: Tz` are alive, {z_expected} packages are still referred to"), &trace);
            }
            // machine code: what a compilation left allocated in page-aligned regions stays exactly as long as
            // the package or one of its handles / closures does
            let mut want_pages = base_pages;
            for pi in 0..st.pkg_info.len() {
                let referred = st.packages[pi].is_some() || st.handles.iter().flatten().any(|(_, p, _)| *p == pi) || st.funcs.iter().flatten().any(|(_, p, _)| *p == pi);
                if referred {
                    want_pages.0 += st.pkg_pages[pi].0;
                    want_pages.1 += st.pkg_pages[pi].1;
                }
            }
            let have_pages = host::page_regions();
            if have_pages != want_pages {
                let sig = if have_pages.1 > want_pages.1 || have_pages.0 > want_pages.0 { "not-released:machine-code" } else { "released-too-early:machine-code" };
                return fail(sig, format!("{} page-aligned regions ({} bytes) of JIT memory are allocated; the packages that are still referred to account for {} regions ({} bytes) (per package: {:?})", have_pages.0 - base_pages.0, have_pages.1 - base_pages.1, want_pages.0 - base_pages.0, want_pages.1 - base_pages.1, st.pkg_pages), &trace);
            }
            let anomalies = host::anomalies();
            if !anomalies.is_empty() {
                return fail("ownership", format!("{anomalies:?}"), &trace);
            }
        }
        // drop everything: every tracked value must be released exactly once
        st.handles.clear();
        st.funcs.clear();
        st.packages.clear();
        st.runtimes.clear();
        if host::live_count().1 != base_tz {
            return fail("not-released", format!("after dropping every runtime, package and handle {} zero-sized constant values are still alive", host::live_count().1 - base_tz), &trace);
        }
        let end = live_by_tag();
        if end != base {
            let extra: Vec<_> = end.iter().filter(|(t, n)| base.get(t).copied().unwrap_or(0) != **n).collect();
            // values whose last referrer died on another thread were dropped there (not in this thread's live set)
            return fail("not-released", format!("after dropping every runtime, package and handle these tracked tags are still alive: {extra:?}"), &trace);
        }
        let anomalies = host::anomalies();
        if !anomalies.is_empty() {
            return fail("ownership", format!("{anomalies:?}"), &trace);
        }
        let end_pages = host::page_regions();
        if end_pages != base_pages {
            return fail("not-released:machine-code", format!("after dropping every runtime, package and handle {} page-aligned regions ({} bytes) of JIT memory are still allocated", end_pages.0 - base_pages.0, end_pages.1 - base_pages.1), &trace);
        }
        let mut o = Outcome::pass();
        o.evals = case.len().max(1) as u64;
        o.nontrivial = call_after_drop || recompiled;
        if call_after_drop {
            o.classes.push("call-after-package-or-runtime-dropped".into());
        }
        if recompiled {
            o.classes.push("same-version-compiled-twice".into());
        }
        if unwound {
            o.classes.push("owner-died-during-unwinding".into());
        }
        if st.pkg_pages.iter().any(|(n, _)| *n > 0) {
            o.classes.push("jit-memory-accounted".into());
        }
        let text = trace.join("\n");
        o.hash = fnv(text.as_bytes());
        if render {
            o.render = Some(text);
        }
        o
    }
}

impl Prop for C11P {
    fn id(&self) -> &'static str {
        "C11"
    }
    fn rule(&self) -> String {
        "histories of up to 40 operations (one proptest chunk each): build runtime k (registers a drop-tracked constant, a closure capturing a tracked value that scripts call, two closures made by one factory (same Rust type, different captured tracked values) that scripts call, and a closure no script uses), compile script version v on a live runtime (two modules each with a constant `K` holding a tracked value, a record constant with a tracked field read through a field, constants whose initialisers leave droppable temporaries, a zero-sized drop-counted constant that is never read; f(x) = x*v + K + REG + host() + host_a() - host_b()), get handle, clone handle, call, drop handle / package / runtime, turn a clone into an `impl Fn` with into_func(), call and drop that closure, move a handle to another thread, call and drop it there, let 2-4 threads clone, call and drop clones of one handle at the same time, move a handle / package / closure into a frame that unwinds (the owner dies during a panic); oracle after every step: the page-aligned regions of the global allocator that are alive (JIT machine code and data; counted by the harness allocator) are exactly those the compilations of the packages still referred to left behind, neither fewer (released too early) nor more (not released); each call returns the model's value for its version and runtime; per tag, tracked values are alive while a runtime, package or handle refers to them, script constants are released as soon as nothing refers to their version, nothing is dropped twice, and after dropping everything the live set equals the initial one. Non-trivial: a call happens after the package and/or runtime that produced the handle were dropped, or the same script version was compiled more than once; distinct by decoded history".into()
    }
    fn assumptions(&self) -> Vec<String> {
        vec![
            "a use-after-free of JIT memory may still return the right value (freed but still mapped memory); the worker isolates crashes; release of machine code is observed as the deallocation of cranelift-jit's page-aligned regions through the harness's global allocator".into(),
            "liveness is tracked per tag, so an implementation may keep one shared or several cloned instances".into(),
        ]
    }
    fn cases(&self, tier: Tier) -> u32 {
        match tier {
            Tier::Quick => 40_000,
            Tier::Thorough => 1_500_000,
        }
    }
    fn shape(&self, _tier: Tier) -> CaseShape {
        CaseShape::history(&[], 40, 3)
    }
    fn worker(&self, _excl: &[String]) -> Box<dyn WorkerState> {
        Box::new(W)
    }
    fn timeout_ms(&self) -> u64 {
        // a history compiles up to a dozen packages and starts threads: on a machine that is busy with
        // other work (load far above the number of cores) one history was seen to take more than the
        // default 20 s
        120_000
    }
}
