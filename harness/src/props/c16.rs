//! C16 — Lists stay memory-safe when shared between threads.
//!
//! 2-3 real threads perform up to 3 list operations each on shared lists while
//! the harness owns the schedule: hook `verif::sched` (cfg roto_verif) reports
//! every point where an operation is outside its critical section, and a baton
//! scheduler driven by generated choices decides who runs next.  Oracles: a
//! stale-pointer monitor over the hook's buffer events and a brute-force
//! linearizability check against the shared-vector model.

use std::cell::Cell;
use std::sync::{Arc, Condvar, Mutex};

use roto::List;
use roto::verif::sched::{self, Event};

use crate::core::*;

pub struct C16P;
pub static C16: C16P = C16P;

#[derive(Clone, Debug, PartialEq)]
enum Op {
    Get(usize, u64),
    Push(usize, u64),
    Len(usize),
    Contains(usize, u64),
    Swap(usize, u64, u64),
    Concat(usize, usize),
    Eq(usize, usize),
    CloneDrop(usize),
}

#[derive(Clone, Debug, PartialEq)]
enum Res {
    Unit,
    Opt(Option<u64>),
    Len(usize),
    Bool(bool),
    Vec(Vec<u64>),
    Pending,
}

#[derive(Clone, Debug)]
struct Done {
    tid: usize,
    op: Op,
    res: Res,
    start: u64,
    end: u64,
    yields_inside: u32,
}

const NONE: usize = usize::MAX;

struct State {
    current: usize,
    finished: Vec<bool>,
    choices: Vec<u8>,
    pos: usize,
    step: u64,
    /// per thread: the pointer that escaped and has not been used yet (list, addr)
    escaped: Vec<Option<(usize, usize)>>,
    stale: Vec<bool>,
    violation: Option<String>,
    /// known finding C16-F2 active: do not switch between concat's critical sections
    concat_atomic: bool,
    trace: Vec<String>,
    yields_in_op: Vec<u32>,
}

struct Sched {
    st: Mutex<State>,
    cv: Condvar,
}

thread_local! {
    static TID: Cell<usize> = const { Cell::new(NONE) };
}

static ACTIVE: Mutex<Option<Arc<Sched>>> = Mutex::new(None);

impl Sched {
    /// hand the baton to a thread chosen by the next schedule byte and wait to get it back
    fn yield_point(&self, tid: usize, why: &str) {
        let mut st = self.st.lock().unwrap();
        st.step += 1;
        let runnable: Vec<usize> = (0..st.finished.len()).filter(|t| !st.finished[*t]).collect();
        let b = st.choices.get(st.pos).copied().unwrap_or(0);
        st.pos += 1;
        // byte 0 (exhausted stream) keeps the current thread running
        let next = if b == 0 { tid } else { runnable[(b as usize) % runnable.len()] };
        if next != tid {
            st.yields_in_op[tid] += 1;
            let line = format!("step {}: t{tid} parked at {why}, t{next} runs", st.step);
            st.trace.push(line);
        }
        st.current = next;
        self.cv.notify_all();
        while st.current != tid {
            st = self.cv.wait(st).unwrap();
        }
    }

    fn finish(&self, tid: usize) {
        let mut st = self.st.lock().unwrap();
        st.finished[tid] = true;
        st.step += 1;
        let runnable: Vec<usize> = (0..st.finished.len()).filter(|t| !st.finished[*t]).collect();
        if let Some(&n) = runnable.first() {
            let b = st.choices.get(st.pos).copied().unwrap_or(0);
            st.pos += 1;
            st.current = runnable[(b as usize) % runnable.len()].max(n.min(usize::MAX));
        } else {
            st.current = NONE;
        }
        self.cv.notify_all();
    }

    fn wait_turn(&self, tid: usize) {
        let mut st = self.st.lock().unwrap();
        while st.current != tid {
            st = self.cv.wait(st).unwrap();
        }
    }
}

fn hook(ev: Event) {
    let tid = TID.with(|t| t.get());
    let Some(s) = ACTIVE.lock().unwrap().clone() else { return };
    match ev {
        Event::PtrEscaped { list, addr } => {
            if tid == NONE {
                return;
            }
            {
                let mut st = s.st.lock().unwrap();
                st.escaped[tid] = Some((list, addr));
                st.stale[tid] = false;
            }
            s.yield_point(tid, "pointer escaped from get");
        }
        Event::PtrUse { addr, .. } => {
            if tid == NONE {
                return;
            }
            let mut st = s.st.lock().unwrap();
            let stale = st.stale[tid];
            st.escaped[tid] = None;
            if stale {
                let msg = format!("t{tid} is about to read an element through address {addr:#x}, obtained before another thread's push reallocated the buffer");
                st.trace.push(msg.clone());
                st.violation = Some(msg);
                drop(st);
                // do not perform the read
                panic!("STALE-POINTER-USE");
            }
        }
        Event::ConcatMiddle { .. } => {
            if tid != NONE {
                let skip = s.st.lock().unwrap().concat_atomic;
                if !skip {
                    s.yield_point(tid, "between the two critical sections of concat");
                }
            }
        }
        Event::BufferRealloc { old, old_bytes, .. } | Event::BufferFreed { old, old_bytes } => {
            let mut st = s.st.lock().unwrap();
            for t in 0..st.escaped.len() {
                if t == tid {
                    continue;
                }
                if let Some((_, addr)) = st.escaped[t] {
                    if addr >= old && addr < old + old_bytes.max(1) {
                        st.stale[t] = true;
                    }
                }
            }
        }
    }
}

fn idx(b: u8, len: usize) -> u64 {
    match b % 5 {
        0 => 0,
        1 => len.saturating_sub(1) as u64,
        2 => len as u64,
        3 => (len / 2) as u64,
        _ => len as u64 + 1,
    }
}

struct Config {
    init: Vec<Vec<u64>>,
    threads: Vec<Vec<Op>>,
    schedule: Vec<u8>,
}

fn decode(case: &Case) -> Config {
    let empty: Vec<u8> = Vec::new();
    let ctl = case.first().unwrap_or(&empty);
    let mut c = Choices::new(ctl);
    let lens = [3usize, 4, 7, 8, 0, 1];
    let init: Vec<Vec<u64>> = (0..2).map(|l| (0..lens[c.below(lens.len())]).map(|i| (l * 100 + i) as u64).collect()).collect();
    let n_threads = 2 + c.below(2);
    let mut threads = Vec::new();
    for _ in 0..n_threads {
        let n_ops = 1 + c.below(3);
        let mut ops = Vec::new();
        for _ in 0..n_ops {
            let l = c.below(2);
            let len = init[l].len();
            let op = match c.below(12) {
                0 | 1 | 2 => Op::Get(l, idx(c.byte(), len)),
                3 | 4 | 5 => Op::Push(l, 1000 + c.below(50) as u64),
                6 => Op::Len(l),
                7 => Op::Contains(l, if c.chance(128) { (l * 100) as u64 } else { 1000 + c.below(50) as u64 }),
                8 => Op::Swap(l, idx(c.byte(), len), idx(c.byte(), len)),
                9 => Op::Concat(l, c.below(2)),
                10 => Op::Eq(l, c.below(2)),
                _ => Op::CloneDrop(l),
            };
            ops.push(op);
        }
        threads.push(ops);
    }
    let schedule = case.get(1).cloned().unwrap_or_default();
    Config { init, threads, schedule }
}

fn apply_model(lists: &mut [Vec<u64>], op: &Op) -> Res {
    match op {
        Op::Get(l, i) => Res::Opt(usize::try_from(*i).ok().and_then(|i| lists[*l].get(i).copied())),
        Op::Push(l, v) => {
            lists[*l].push(*v);
            Res::Unit
        }
        Op::Len(l) => Res::Len(lists[*l].len()),
        Op::Contains(l, v) => Res::Bool(lists[*l].contains(v)),
        Op::Swap(l, i, j) => {
            let n = lists[*l].len();
            if let (Ok(i), Ok(j)) = (usize::try_from(*i), usize::try_from(*j)) {
                if i < n && j < n {
                    lists[*l].swap(i, j);
                }
            }
            Res::Unit
        }
        Op::Concat(a, b) => {
            let mut v = lists[*a].clone();
            v.extend(lists[*b].iter().copied());
            Res::Vec(v)
        }
        Op::Eq(a, b) => Res::Bool(lists[*a] == lists[*b]),
        Op::CloneDrop(_) => Res::Unit,
    }
}

/// brute-force search for a linearization
fn linearizable(init: &[Vec<u64>], done: &[Done]) -> bool {
    fn go(lists: &mut Vec<Vec<u64>>, done: &[Done], used: &mut Vec<bool>, left: usize) -> bool {
        if left == 0 {
            return true;
        }
        for i in 0..done.len() {
            if used[i] {
                continue;
            }
            // real-time order: every operation that finished before this one started must already be placed
            if (0..done.len()).any(|j| !used[j] && j != i && done[j].end < done[i].start) {
                continue;
            }
            let saved = lists.clone();
            let r = apply_model(lists, &done[i].op);
            if done[i].res == Res::Pending || r == done[i].res {
                used[i] = true;
                if go(lists, done, used, left - 1) {
                    return true;
                }
                used[i] = false;
            }
            *lists = saved;
        }
        false
    }
    let mut lists = init.to_vec();
    let mut used = vec![false; done.len()];
    go(&mut lists, done, &mut used, done.len())
}

struct W {
    excl_get: bool,
    excl_concat: bool,
    stress: Option<Arc<crate::props::c16s::StressFns>>,
    plain: Option<Arc<crate::props::c16p::PlainFns>>,
}

/// another one in eight goes to the free-running engine for script-made lists of plain data (c16p.rs)
fn is_plain(case: &Case) -> bool {
    case.first().and_then(|c| c.first()).map(|b| b % 8 == 6).unwrap_or(false)
}

/// one case in eight goes to the free-running engine (c16s.rs)
fn is_stress(case: &Case) -> bool {
    case.first().and_then(|c| c.first()).map(|b| b % 8 == 7).unwrap_or(false)
}

fn describe(cfg: &Config) -> String {
    let mut s = format!("lists: {:?}\n", cfg.init);
    for (t, ops) in cfg.threads.iter().enumerate() {
        s.push_str(&format!("t{t}: {:?}\n", ops));
    }
    s.push_str(&format!("schedule choices: {:?}", cfg.schedule.iter().take(24).collect::<Vec<_>>()));
    s
}

impl WorkerState for W {
    fn render_only(&mut self, case: &Case) -> String {
        if is_stress(case) {
            return crate::props::c16s::describe(&case[0][1..]);
        }
        if is_plain(case) {
            return crate::props::c16p::describe(&case[0][1..]);
        }
        describe(&decode(case))
    }

    fn run(&mut self, case: &Case, render: bool) -> Outcome {
        if is_stress(case) {
            if self.stress.is_none() {
                match crate::props::c16s::build() {
                    Ok(f) => self.stress = Some(Arc::new(f)),
                    Err(e) => return Outcome::discard(format!("stress script rejected: {e}")),
                }
            }
            return crate::props::c16s::run(self.stress.as_ref().unwrap(), &case[0][1..], render);
        }
        if is_plain(case) {
            if self.plain.is_none() {
                match crate::props::c16p::build() {
                    Ok(f) => self.plain = Some(Arc::new(f)),
                    Err(e) => return Outcome::discard(format!("plain-data stress script rejected: {e}")),
                }
            }
            return crate::props::c16p::run(self.plain.as_ref().unwrap(), &case[0][1..], render);
        }
        let mut cfg = decode(case);
        let mut excluded = 0u64;
        if self.excl_get {
            // known finding C16-F1: keep pushes from reallocating while a get is in flight by giving
            // every list spare capacity (9 or 10 elements in a 16-element buffer, at most 6 pushes)
            for (l, v) in cfg.init.iter_mut().enumerate() {
                let want = 9 + (v.len() % 2);
                *v = (0..want).map(|i| (l * 100 + i) as u64).collect();
            }
            let mut pushes = 0;
            for ops in cfg.threads.iter_mut() {
                for op in ops.iter_mut() {
                    if let Op::Push(l, _) = op {
                        pushes += 1;
                        if pushes > 6 {
                            *op = Op::Len(*l);
                        }
                    }
                }
            }
            excluded += 1;
        }
        let n = cfg.threads.len();
        // built by pushing, so that the capacity follows the growth policy (4, 8, 16, ...)
        let lists: Vec<List<u64>> = cfg
            .init
            .iter()
            .map(|v| {
                let l = List::new();
                for x in v {
                    l.push(*x);
                }
                l
            })
            .collect();
        let s = Arc::new(Sched {
            st: Mutex::new(State {
                current: 0,
                finished: vec![false; n],
                choices: cfg.schedule.clone(),
                pos: 0,
                step: 0,
                escaped: vec![None; n],
                stale: vec![false; n],
                violation: None,
                concat_atomic: self.excl_concat,
                trace: Vec::new(),
                yields_in_op: vec![0; n],
            }),
            cv: Condvar::new(),
        });
        *ACTIVE.lock().unwrap() = Some(s.clone());
        sched::install(Some(Arc::new(hook)));
        let results: Arc<Mutex<Vec<Done>>> = Arc::new(Mutex::new(Vec::new()));
        let mut handles = Vec::new();
        for (tid, ops) in cfg.threads.iter().cloned().enumerate() {
            let s = s.clone();
            let lists = lists.clone();
            let results = results.clone();
            handles.push(std::thread::spawn(move || {
                TID.with(|t| t.set(tid));
                s.wait_turn(tid);
                for op in ops {
                    let start = {
                        let mut st = s.st.lock().unwrap();
                        st.yields_in_op[tid] = 0;
                        st.step += 1;
                        st.step
                    };
                    let r = std::panic::catch_unwind(std::panic::AssertUnwindSafe(|| match &op {
                        Op::Get(l, i) => Res::Opt(usize::try_from(*i).ok().and_then(|i| lists[*l].get(i))),
                        Op::Push(l, v) => {
                            lists[*l].push(*v);
                            Res::Unit
                        }
                        Op::Len(l) => Res::Len(lists[*l].len()),
                        Op::Contains(l, v) => Res::Bool(lists[*l].contains(v)),
                        Op::Swap(l, i, j) => {
                            if let (Ok(i), Ok(j)) = (usize::try_from(*i), usize::try_from(*j)) {
                                lists[*l].swap(i, j);
                            }
                            Res::Unit
                        }
                        Op::Concat(a, b) => Res::Vec(lists[*a].concat(&lists[*b]).to_vec()),
                        Op::Eq(a, b) => Res::Bool(lists[*a] == lists[*b]),
                        Op::CloneDrop(l) => {
                            let c = lists[*l].clone();
                            drop(c);
                            Res::Unit
                        }
                    }));
                    let (end, yields) = {
                        let mut st = s.st.lock().unwrap();
                        st.step += 1;
                        (st.step, st.yields_in_op[tid])
                    };
                    let res = r.unwrap_or(Res::Pending);
                    let aborted = res == Res::Pending;
                    results.lock().unwrap().push(Done { tid, op, res, start, end, yields_inside: yields });
                    if aborted {
                        break;
                    }
                    s.yield_point(tid, "between operations");
                }
                s.finish(tid);
                TID.with(|t| t.set(NONE));
            }));
        }
        for h in handles {
            let _ = h.join();
        }
        sched::install(None);
        *ACTIVE.lock().unwrap() = None;
        crate::worker::take_panic();
        let st = s.st.lock().unwrap();
        let done = results.lock().unwrap().clone();
        let text = format!("{}\n{}", describe(&cfg), st.trace.join("\n"));
        let mut o = Outcome::pass();
        o.evals = done.len() as u64;
        if excluded > 0 {
            o.excluded.push(("C16-F1".into(), excluded));
        }
        if self.excl_concat && done.iter().any(|d| matches!(d.op, Op::Concat(..))) {
            o.excluded.push(("C16-F2".into(), 1));
        }
        if let Some(v) = &st.violation {
            let mut f = Outcome::fail("stale-pointer-use:List::get", format!("{v}\n{text}"));
            f.render = Some(text);
            return f;
        }
        if !linearizable(&cfg.init, &done) {
            let hist: Vec<String> = done.iter().map(|d| format!("t{} {:?} -> {:?} [{}..{}]", d.tid, d.op, d.res, d.start, d.end)).collect();
            let kind = if done.iter().any(|d| matches!(d.op, Op::Concat(..)) && d.yields_inside > 0) { "concat" } else { "other" };
            let mut f = Outcome::fail(
                format!("not-linearizable:{kind}"),
                format!("no linearization of the observed history exists under the shared-vector model:\n  {}\n{text}", hist.join("\n  ")),
            );
            f.render = Some(text);
            return f;
        }
        o.nontrivial = done.iter().any(|d| d.yields_inside > 0);
        if o.nontrivial {
            o.classes.push("context-switch-inside-operation".into());
        }
        o.classes.push(format!("threads:{n}"));
        o.hash = fnv(text.as_bytes());
        if render {
            o.render = Some(text);
        }
        o
    }
}

impl Prop for C16P {
    fn id(&self) -> &'static str {
        "C16"
    }
    fn rule(&self) -> String {
        "configurations of 2-3 real threads x up to 3 operations from {get, push, len, contains, swap, concat, ==, clone+drop} on 2 shared List<u64> with initial lengths at capacity boundaries (0, 1, 3, 4, 7, 8) x a generated schedule; the harness owns the schedule through hook verif::sched: threads run one at a time and hand over the baton between operations and at the scheduling points the implementation reports; oracles: stale-pointer monitor over the hook's buffer events and brute-force linearizability against the shared-vector model. A second, hook-free engine (one case in eight) lets real threads race on fresh lists of drop-tracked elements at capacity boundaries (mutators: push from Rust / script, two pushes, two pushers on the last free slot, overlapping swaps, clone+drop of a handle, nobody; readers: == in both orders, !=, contains, index, len, is_empty, to_vec, get, concat and + from Rust and from scripts), with freed memory poisoned by the harness allocator: a stale read shows as use of garbage, results must be consistent with some order, the final list must be a permutation of the original elements plus the pushed ones, len <= capacity, tracked elements balance. Non-trivial: a context switch happened inside an operation (scheduler engine) or two threads overlapped in time (free-running engine); distinct by (configuration, schedule)".into()
    }
    fn assumptions(&self) -> Vec<String> {
        vec![
            "the scheduler engine explores interleavings at hook granularity only (between operations and at reported points); since the repairs of C16-F1 and C16-F2 no operation reports a point inside its critical section, so races inside operations are the free-running engine's job, which samples the schedules the OS produces (a race with a window of a few instructions may need the thorough tier)".into(),
            "every reallocation during the pointer window counts as a relocation (whether realloc moves the buffer is allocator-dependent)".into(),
            "script-side get (ffi::list_get) is covered by the same hook events but driven here through the Rust API only".into(),
        ]
    }
    fn cases(&self, tier: Tier) -> u32 {
        match tier {
            Tier::Quick => 150_000,
            Tier::Thorough => 5_000_000,
        }
    }
    fn shape(&self, _tier: Tier) -> CaseShape {
        CaseShape::streams(&[40, 40])
    }
    fn timeout_ms(&self) -> u64 {
        // real threads behind spin gates: on a machine that is busy with other work (load far above the
        // number of cores) single cases were seen to take longer than the default 30 s
        120_000
    }
    fn worker(&self, excl: &[String]) -> Box<dyn WorkerState> {
        Box::new(W { excl_get: excl.iter().any(|e| e == "C16-F1"), excl_concat: excl.iter().any(|e| e == "C16-F2"), stress: None, plain: None })
    }
}
