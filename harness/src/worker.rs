//! Worker process: executes cases one by one and reports an outcome per case.
//!
//! Protocol (line based, over a private duplicate of stdout so that anything
//! the code under test prints cannot corrupt it):
//!   driver -> worker : {"case": ["hex", ...], "render": bool}
//!   worker -> driver : outcome JSON (see core::Outcome::to_json)

use std::cell::RefCell;
use std::io::{BufRead, Write};
use std::os::fd::FromRawFd;
use std::panic::{AssertUnwindSafe, catch_unwind};

use crate::core::*;

thread_local! {
    pub static LAST_PANIC: RefCell<Option<(String, String)>> = const { RefCell::new(None) };
}

pub fn install_panic_hook() {
    std::panic::set_hook(Box::new(|info| {
        let loc = info
            .location()
            .map(|l| format!("{}:{}", l.file(), l.line()))
            .unwrap_or_else(|| "?".into());
        let msg = if let Some(s) = info.payload().downcast_ref::<&str>() {
            s.to_string()
        } else if let Some(s) = info.payload().downcast_ref::<String>() {
            s.clone()
        } else {
            "<non-string panic>".to_string()
        };
        eprintln!("panicked at {loc}: {msg}");
        LAST_PANIC.with(|p| *p.borrow_mut() = Some((loc, msg)));
    }));
}

pub fn take_panic() -> Option<(String, String)> {
    LAST_PANIC.with(|p| p.borrow_mut().take())
}

/// Strip the repository prefix so that signatures are stable across checkouts.
pub fn short_loc(loc: &str) -> String {
    let l = loc.strip_prefix("/repo/").unwrap_or(loc);
    // drop the line number: fixes elsewhere in the file must not change a signature
    match l.rfind(':') {
        Some(i) => l[..i].to_string(),
        None => l.to_string(),
    }
}

/// Reduce a panic message to a skeleton (first line, digits and quoted parts removed).
pub fn skeleton(msg: &str) -> String {
    let first = msg.lines().next().unwrap_or("");
    let mut out = String::new();
    let mut in_tick = false;
    for c in first.chars() {
        if c == '`' || c == '\'' || c == '"' {
            in_tick = !in_tick;
            out.push(c);
            continue;
        }
        if in_tick {
            continue;
        }
        if c.is_ascii_digit() {
            if !out.ends_with('#') {
                out.push('#');
            }
        } else {
            out.push(c);
        }
    }
    out.chars().take(100).collect()
}

/// Run a closure, turning a panic into a failing outcome.
pub fn guarded(f: impl FnOnce() -> Outcome) -> Outcome {
    take_panic();
    match catch_unwind(AssertUnwindSafe(f)) {
        Ok(o) => o,
        Err(_) => {
            let (loc, msg) = take_panic().unwrap_or(("?".into(), "?".into()));
            Outcome::fail(
                format!("panic:{}:{}", short_loc(&loc), skeleton(&msg)),
                format!("panic at {loc}: {msg}"),
            )
        }
    }
}

pub fn worker_main(prop: &'static dyn Prop, excl: Vec<String>) -> i32 {
    // Private protocol channel: dup stdout, then point fd 1 at stderr.
    let proto_fd = unsafe { libc::dup(1) };
    unsafe { libc::dup2(2, 1) };
    let mut proto = unsafe { std::fs::File::from_raw_fd(proto_fd) };
    install_panic_hook();

    let handle = std::thread::Builder::new()
        .name("case".into())
        .stack_size(512 << 20)
        .spawn(move || {
            let mut state = prop.worker(&excl);
            let stdin = std::io::stdin();
            let mut line = String::new();
            loop {
                line.clear();
                match stdin.lock().read_line(&mut line) {
                    Ok(0) | Err(_) => break,
                    Ok(_) => {}
                }
                let Ok(j) = serde_json::from_str::<serde_json::Value>(&line) else {
                    break;
                };
                let Some(case) = j.get("case").and_then(case_from_json) else {
                    break;
                };
                let render = j.get("render").and_then(|x| x.as_bool()).unwrap_or(false);
                let out = guarded(|| state.run(&case, render));
                let s = serde_json::to_string(&out.to_json()).unwrap();
                if writeln!(proto, "{s}").is_err() {
                    break;
                }
                let _ = proto.flush();
            }
        })
        .unwrap();
    let _ = handle.join();
    0
}
