//! Worker process: executes cases one by one and reports an outcome per case.
//!
//! Protocol (line based, over a private duplicate of stdout so that anything
//! the code under test prints cannot corrupt it):
//!   driver -> worker : {"case": ["hex", ...], "render": bool}
//!   worker -> driver : outcome JSON (see core::Outcome::to_json)

use std::cell::RefCell;
use std::io::{BufRead, Write};
use std::os::fd::FromRawFd;
use std::panic::{AssertUnwindSafe, catch_unwind};

use crate::core::*;

thread_local! {
    pub static LAST_PANIC: RefCell<Option<(String, String)>> = const { RefCell::new(None) };
}

pub fn install_panic_hook() {
    std::panic::set_hook(Box::new(|info| {
        let loc = info
            .location()
            .map(|l| format!("{}:{}", l.file(), l.line()))
            .unwrap_or_else(|| "?".into());
        let msg = if let Some(s) = info.payload().downcast_ref::<&str>() {
            s.to_string()
        } else if let Some(s) = info.payload().downcast_ref::<String>() {
            s.clone()
        } else {
            "<non-string panic>".to_string()
        };
        eprintln!("panicked at {loc}: {msg}");
        LAST_PANIC.with(|p| *p.borrow_mut() = Some((loc, msg)));
    }));
}

pub fn take_panic() -> Option<(String, String)> {
    LAST_PANIC.with(|p| p.borrow_mut().take())
}

/// Strip the repository prefix so that signatures are stable across checkouts.
pub fn short_loc(loc: &str) -> String {
    let l = crate::core::strip_repo(loc);
    // drop the line number: fixes elsewhere in the file must not change a signature
    match l.rfind(':') {
        Some(i) => l[..i].to_string(),
        None => l.to_string(),
    }
}

/// Reduce a panic message to a skeleton (first line, digits and quoted parts removed).
pub fn skeleton(msg: &str) -> String {
    let first = msg.lines().next().unwrap_or("");
    let mut out = String::new();
    let mut in_tick = false;
    for c in first.chars() {
        if c == '`' || c == '\'' || c == '"' {
            in_tick = !in_tick;
            out.push(c);
            continue;
        }
        if in_tick {
            continue;
        }
        if c.is_ascii_digit() {
            if !out.ends_with('#') {
                out.push('#');
            }
        } else {
            out.push(c);
        }
    }
    // cut at the first back-tick: what follows usually quotes the input
    let out = match out.find('`') {
        Some(i) => out[..i].to_string(),
        None => out,
    };
    out.chars().take(80).collect()
}

/// Run a closure, turning a panic into a failing outcome.
pub fn guarded(f: impl FnOnce() -> Outcome) -> Outcome {
    take_panic();
    match catch_unwind(AssertUnwindSafe(f)) {
        Ok(o) => o,
        Err(_) => {
            let (loc, msg) = take_panic().unwrap_or(("?".into(), "?".into()));
            Outcome::fail(
                format!("panic:{}:{}", short_loc(&loc), skeleton(&msg)),
                format!("panic at {loc}: {msg}"),
            )
        }
    }
}

pub fn worker_main(prop: &'static dyn Prop, excl: Vec<String>) -> i32 {
    // Private protocol channel: dup stdout, then point fd 1 at stderr.
    let proto_fd = unsafe { libc::dup(1) };
    unsafe { libc::dup2(2, 1) };
    let mut proto = unsafe { std::fs::File::from_raw_fd(proto_fd) };
    install_panic_hook();
    crate::host::poison_freed_memory(true);

    let handle = std::thread::Builder::new()
        .name("case".into())
        .stack_size(512 << 20)
        .spawn(move || {
            let mut state = prop.worker(&excl);
            let stdin = std::io::stdin();
            let mut line = String::new();
            loop {
                line.clear();
                match stdin.lock().read_line(&mut line) {
                    Ok(0) | Err(_) => break,
                    Ok(_) => {}
                }
                let Ok(j) = serde_json::from_str::<serde_json::Value>(&line) else {
                    break;
                };
                let Some(case) = j.get("case").and_then(case_from_json) else {
                    break;
                };
                let render = j.get("render").and_then(|x| x.as_bool()).unwrap_or(false);
                let render_only = j.get("render_only").and_then(|x| x.as_bool()).unwrap_or(false);
                let reduce_sig = j.get("reduce_sig").and_then(|x| x.as_str()).map(|s| s.to_string());
                let out = if let Some(sig) = reduce_sig {
                    guarded(|| {
                        let mut o = Outcome::pass();
                        o.render = Some(state.reduce(&case, &sig));
                        o
                    })
                } else if render_only {
                    guarded(|| {
                        let mut o = Outcome::pass();
                        o.render = Some(state.render_only(&case));
                        o
                    })
                } else {
                    guarded(|| state.run(&case, render))
                };
                let s = serde_json::to_string(&out.to_json()).unwrap();
                if writeln!(proto, "{s}").is_err() {
                    break;
                }
                let _ = proto.flush();
            }
        })
        .unwrap();
    let _ = handle.join();
    0
}


/// Run `f` in a forked child so that a crash only kills the child.  Returns the
/// failure signature: "" for pass/discard, the outcome's signature for a failure,
/// "crash:<SIGNAL>" if the child died by a signal.
pub fn forked_sig(f: impl FnOnce() -> Outcome) -> String {
    use std::io::Read;
    let mut fds = [0i32; 2];
    if unsafe { libc::pipe(fds.as_mut_ptr()) } != 0 {
        return String::new();
    }
    let pid = unsafe { libc::fork() };
    if pid < 0 {
        return String::new();
    }
    if pid == 0 {
        // child
        unsafe { libc::close(fds[0]) };
        let o = guarded(f);
        let sig = if o.verdict == Verdict::Fail { o.sig } else { String::new() };
        let bytes = sig.as_bytes();
        unsafe {
            libc::write(fds[1], bytes.as_ptr() as *const libc::c_void, bytes.len());
            libc::_exit(0);
        }
    }
    unsafe { libc::close(fds[1]) };
    let mut file = unsafe { std::fs::File::from_raw_fd(fds[0]) };
    let mut buf = Vec::new();
    let _ = file.read_to_end(&mut buf);
    let mut status: i32 = 0;
    unsafe { libc::waitpid(pid, &mut status, 0) };
    if libc::WIFSIGNALED(status) {
        let s = libc::WTERMSIG(status);
        let name = match s {
            4 => "SIGILL".to_string(),
            6 => "SIGABRT".to_string(),
            7 => "SIGBUS".to_string(),
            8 => "SIGFPE".to_string(),
            11 => "SIGSEGV".to_string(),
            n => format!("SIG{n}"),
        };
        return format!("crash:{name}");
    }
    String::from_utf8_lossy(&buf).to_string()
}
